// Package tablecheck judges generated symbol-table files (the format written by the extract tool and
// shipped in stdlib/) against go/types packages loaded from source. Shared by C14 (shipped tables) and
// C18 (tables freshly produced by extract).
package tablecheck

import (
	"bufio"
	"fmt"
	"go/ast"
	"go/build"
	"go/constant"
	"go/parser"
	"go/token"
	"go/types"
	"os"
	"path/filepath"
	"regexp"
	"runtime"
	"sort"
	"strconv"
	"strings"
)

var Repo = func() string {
	if r := os.Getenv("VERIF_REPO"); r != "" {
		return r
	}
	return "/repo"
}()

// ---- source importer with explicit build context ----

type SrcImporter struct {
	ctx  build.Context
	fset *token.FileSet
	pkgs map[string]*types.Package
}

func NewImporter(goos, goarch string) *SrcImporter {
	ctx := build.Default
	ctx.GOOS, ctx.GOARCH, ctx.CgoEnabled = goos, goarch, false
	ctx.GOPATH = ""
	return &SrcImporter{ctx: ctx, fset: token.NewFileSet(), pkgs: map[string]*types.Package{}}
}

func (m *SrcImporter) Import(path string) (*types.Package, error) { return m.ImportFrom(path, "", 0) }

func (m *SrcImporter) ImportFrom(path, dir string, _ types.ImportMode) (*types.Package, error) {
	if path == "unsafe" {
		return types.Unsafe, nil
	}
	if p := m.pkgs[path]; p != nil {
		return p, nil
	}
	bp, err := m.ctx.Import(path, dir, 0)
	if err != nil {
		return nil, err
	}
	if p := m.pkgs[bp.ImportPath]; p != nil {
		return p, nil
	}
	var files []*ast.File
	for _, f := range append(append([]string{}, bp.GoFiles...), bp.CgoFiles...) {
		af, err := parser.ParseFile(m.fset, filepath.Join(bp.Dir, f), nil, parser.SkipObjectResolution)
		if err != nil {
			return nil, err
		}
		files = append(files, af)
	}
	conf := types.Config{Importer: m, FakeImportC: true, Sizes: types.SizesFor("gc", m.ctx.GOARCH), Error: func(err error) {}}
	p, _ := conf.Check(bp.ImportPath, m.fset, files, nil)
	m.pkgs[bp.ImportPath] = p
	m.pkgs[path] = p
	return p, nil
}

// ---- table files ----

type TableFile struct {
	Path    string
	Dir     string // stdlib | syscall | unrestricted | unsafe
	Release int    // 21 | 22
	GOOS    string
	GOARCH  string
	// Completeness: "" or "api" = GOROOT/api up to Release; "scope" = exactly the exported non-generic
	// package-level objects of the reference package (used for freshly extracted files)
	Completeness string
	// NoReplacements: the file is raw extract output (no documented restricted replacements expected)
	NoReplacements bool
}

var PlatRe = regexp.MustCompile(`^go1_(\d+)_syscall_([a-z0-9]+)_([a-z0-9]+)\.go$`)
var RelRe = regexp.MustCompile(`^go1_(\d+)_`)

func ListFiles() []TableFile {
	var out []TableFile
	for _, d := range []struct{ sub, name string }{{"", "stdlib"}, {"syscall", "syscall"}, {"unrestricted", "unrestricted"}, {"unsafe", "unsafe"}} {
		ents, err := os.ReadDir(filepath.Join(Repo, "stdlib", d.sub))
		if err != nil {
			fmt.Fprintln(os.Stderr, "HARNESS-ERROR:", err)
			os.Exit(3)
		}
		for _, e := range ents {
			m := RelRe.FindStringSubmatch(e.Name())
			if e.IsDir() || m == nil {
				continue
			}
			tf := TableFile{Path: filepath.Join(Repo, "stdlib", d.sub, e.Name()), Dir: d.name, GOOS: "linux", GOARCH: "amd64"}
			tf.Release, _ = strconv.Atoi(m[1])
			if pm := PlatRe.FindStringSubmatch(e.Name()); pm != nil {
				tf.GOOS, tf.GOARCH = pm[2], pm[3]
			}
			out = append(out, tf)
		}
	}
	sort.Slice(out, func(i, j int) bool { return out[i].Path < out[j].Path })
	return out
}

// documented restricted replacements: (package path, name) -> identifier bound instead
var replacements = map[string]string{
	"os.Exit": "osExit", "os.FindProcess": "osFindProcess",
	"log.Fatal": "logFatal", "log.Fatalf": "logFatalf", "log.Fatalln": "logFatalln", "log.New": "logNew", "log.Logger": "logLogger",
}

type Problem struct {
	File  string `json:"file"`
	Pkg   string `json:"package"`
	Name  string `json:"name"`
	Kind  string `json:"kind"`
	What  string `json:"what"`
	Plat  string `json:"platform"`
	Value string `json:"value,omitempty"`
}

type FileResult struct {
	Problems []Problem      `json:"problems,omitempty"`
	Counts   map[string]int `json:"counts"`
	Floats   []Problem      `json:"rounded_floats,omitempty"`
}

// ---- api files ----

type apiName struct{ kind string }

var apiCache = map[string]map[string]map[string]bool{} // release -> platform key -> "pkg\x00Name" set

var apiLine = regexp.MustCompile(`^pkg ([^ ,]+)( \(([^)]+)\))?, (const|var|func|type) ([A-Za-z_][A-Za-z0-9_]*)(.?)`)

// apiNames returns the exported non-generic package-level names of pkg declared up to go1.<release>
// for the platform (unqualified lines + lines qualified with exactly goos-goarch).
func apiNames(pkg string, release int, goos, goarch string) map[string]bool {
	names := map[string]bool{}
	goroot := runtime.GOROOT()
	for r := 0; r <= release; r++ {
		fn := fmt.Sprintf("go1.%d.txt", r)
		if r == 0 {
			fn = "go1.txt"
		}
		f, err := os.Open(filepath.Join(goroot, "api", fn))
		if err != nil {
			continue
		}
		sc := bufio.NewScanner(f)
		sc.Buffer(make([]byte, 1<<20), 1<<20)
		for sc.Scan() {
			l := sc.Text()
			if !strings.HasPrefix(l, "pkg "+pkg) {
				continue
			}
			m := apiLine.FindStringSubmatch(l)
			if m == nil || m[1] != pkg {
				continue
			}
			if m[3] != "" && m[3] != goos+"-"+goarch {
				continue
			}
			if m[6] == "[" {
				continue // generic function or type
			}
			if m[4] == "type" && strings.Contains(l, "type "+m[5]+"[") {
				continue
			}
			names[m[5]] = true
		}
		f.Close()
	}
	return names
}

var methodCache = map[string]map[string]bool{}

// apiHasMethod: is method m of interface pkg.iface declared by an api file up to go1.<release>?
// (interfaces whose methods are listed nowhere, e.g. embedded-only ones, are not filtered).
func apiHasMethod(pkg, iface, m string, release int) bool {
	key := fmt.Sprintf("%s.%s@%d", pkg, iface, release)
	set, ok := methodCache[key]
	if !ok {
		set = map[string]bool{}
		later := map[string]bool{}
		goroot := runtime.GOROOT()
		for r := 0; r <= 40; r++ {
			fn := fmt.Sprintf("go1.%d.txt", r)
			if r == 0 {
				fn = "go1.txt"
			}
			b, err := os.ReadFile(filepath.Join(goroot, "api", fn))
			if err != nil {
				continue
			}
			prefix := "pkg " + pkg + ", type " + iface + " interface, "
			for _, l := range strings.Split(string(b), "\n") {
				if strings.HasPrefix(l, prefix) {
					name := strings.TrimPrefix(l, prefix)
					if i := strings.IndexAny(name, "( "); i >= 0 {
						name = name[:i]
					}
					if r <= release {
						set[name] = true
					} else {
						later["later:"+name] = true
					}
				}
			}
		}
		for k := range later {
			set[k] = true
		}
		methodCache[key] = set
	}
	if set["later:"+m] && !set[m] {
		return false
	}
	return true
}

// ---- checking one table file ----

func CheckFile(tf TableFile, imp *SrcImporter) FileResult {
	res := FileResult{Counts: map[string]int{}}
	base := filepath.Base(tf.Path)
	plat := tf.GOOS + "/" + tf.GOARCH
	bad := func(pkg, name, kind, what, val string) {
		res.Problems = append(res.Problems, Problem{File: base, Pkg: pkg, Name: name, Kind: kind, What: what, Plat: plat, Value: val})
	}
	fset := token.NewFileSet()
	f, err := parser.ParseFile(fset, tf.Path, nil, parser.ParseComments|parser.SkipObjectResolution)
	if err != nil {
		bad("", "", "file", "does not parse: "+err.Error(), "")
		return res
	}
	imports := map[string]string{} // local name -> path
	for _, is := range f.Imports {
		p, _ := strconv.Unquote(is.Path.Value)
		n := p[strings.LastIndex(p, "/")+1:]
		if is.Name != nil {
			n = is.Name.Name
		}
		imports[n] = p
	}
	wrappers := map[string]*ast.StructType{}
	methods := map[string][]*ast.FuncDecl{}
	var tables []*ast.AssignStmt
	for _, d := range f.Decls {
		switch x := d.(type) {
		case *ast.GenDecl:
			for _, s := range x.Specs {
				if ts, ok := s.(*ast.TypeSpec); ok && strings.HasPrefix(ts.Name.Name, "_") {
					if st, ok := ts.Type.(*ast.StructType); ok {
						wrappers[ts.Name.Name] = st
					}
				}
			}
		case *ast.FuncDecl:
			if x.Recv != nil && len(x.Recv.List) == 1 {
				if id, ok := x.Recv.List[0].Type.(*ast.Ident); ok {
					methods[id.Name] = append(methods[id.Name], x)
				}
			}
			if x.Recv == nil && x.Name.Name == "init" {
				for _, st := range x.Body.List {
					if as, ok := st.(*ast.AssignStmt); ok {
						tables = append(tables, as)
					}
				}
			}
		}
	}
	for _, as := range tables {
		ix, ok := as.Lhs[0].(*ast.IndexExpr)
		if !ok {
			continue
		}
		lit, ok := ix.Index.(*ast.BasicLit)
		if !ok {
			continue
		}
		key, _ := strconv.Unquote(lit.Value) // "os/os"
		pkgPath := key[:strings.LastIndex(key, "/")]
		cl, ok := as.Rhs[0].(*ast.CompositeLit)
		if !ok {
			bad(pkgPath, "", "table", "unexpected table form", "")
			continue
		}
		pkg, err := imp.Import(pkgPath)
		if err != nil || pkg == nil {
			bad(pkgPath, "", "table", fmt.Sprint("cannot load reference package: ", err), "")
			continue
		}
		res.Counts["tables"]++
		keys := map[string]bool{}
		for _, el := range cl.Elts {
			kv := el.(*ast.KeyValueExpr)
			name, _ := strconv.Unquote(kv.Key.(*ast.BasicLit).Value)
			keys[name] = true
			res.Counts["entries"]++
			checkEntry(tf, &res, bad, pkgPath, pkg, imports, name, kv.Value, wrappers, methods)
		}
		if tf.Completeness == "scope" {
			for _, n := range pkg.Scope().Names() {
				o := pkg.Scope().Lookup(n)
				if !o.Exported() || !Bindable(o) {
					if keys[n] {
						bad(pkgPath, n, "extra", "table binds an object that is generic or not exported", "")
					}
					continue
				}
				res.Counts["scope_names_required"]++
				if !keys[n] {
					bad(pkgPath, n, "missing", "exported non-generic package-level object is not in the table", "")
				}
			}
			for k := range keys {
				if !strings.HasPrefix(k, "_") && pkg.Scope().Lookup(k) == nil {
					bad(pkgPath, k, "extra", "table key is not an object of the package", "")
				}
			}
			// every exported interface needs a wrapper
			for _, n := range pkg.Scope().Names() {
				if tn, ok := pkg.Scope().Lookup(n).(*types.TypeName); ok && tn.Exported() && Bindable(tn) {
					if it, ok := tn.Type().Underlying().(*types.Interface); ok && it.IsMethodSet() && !keys["_"+n] {
						bad(pkgPath, "_"+n, "missing", "exported interface has no wrapper entry", "")
					}
				}
			}
			continue
		}
		// completeness against the api files of the targeted release
		want := apiNames(pkgPath, tf.Release, tf.GOOS, tf.GOARCH)
		for n := range want {
			res.Counts["api_names_required"]++
			if !keys[n] {
				// an api name that the installed sources no longer export at package level for this platform is not demanded
				o := pkg.Scope().Lookup(n)
				if o == nil {
					res.Counts["api_names_absent_from_installed_sources"]++
					continue
				}
				if tn, ok := o.(*types.TypeName); ok {
					if it, ok := tn.Type().Underlying().(*types.Interface); ok && !it.IsMethodSet() {
						res.Counts["constraint_interfaces_not_bindable"]++
						continue
					}
				}
				if pkgPath == "syscall" && tf.Dir == "syscall" {
					// the syscall table is split: process-control entries live in the unrestricted table
					res.Counts["syscall_names_left_to_unrestricted"]++
					continue
				}
				if pkgPath == "syscall" && tf.Dir == "unrestricted" {
					continue
				}
				bad(pkgPath, n, "missing", "exported object declared by go1."+strconv.Itoa(tf.Release)+" api is not in the table", "")
			}
		}
	}
	return res
}

// Bindable: can the object be bound in a symbol table (non-generic function or type, not a constraint interface)?
func Bindable(o types.Object) bool {
	switch x := o.(type) {
	case *types.Func:
		return x.Type().(*types.Signature).TypeParams().Len() == 0
	case *types.TypeName:
		if n, ok := x.Type().(*types.Named); ok && n.TypeParams().Len() > 0 {
			return false
		}
		if it, ok := x.Type().Underlying().(*types.Interface); ok && !it.IsMethodSet() {
			return false
		}
	}
	return true
}

// TypeCheck "compiles" a generated file with go/types (all imports resolved from source).
func TypeCheck(path string, imp *SrcImporter) error {
	fset := token.NewFileSet()
	f, err := parser.ParseFile(fset, path, nil, parser.SkipObjectResolution)
	if err != nil {
		return err
	}
	// the destination package is expected to declare the Symbols map (as stdlib/stdlib.go does)
	companion, err := parser.ParseFile(fset, "symbols.go", "package "+f.Name.Name+"\n\nimport \"reflect\"\n\nvar Symbols = map[string]map[string]reflect.Value{}\n", parser.SkipObjectResolution)
	if err != nil {
		return err
	}
	var first error
	conf := types.Config{Importer: imp, Sizes: types.SizesFor("gc", imp.ctx.GOARCH), Error: func(e error) {
		if first == nil {
			first = e
		}
	}}
	conf.Check("generated", fset, []*ast.File{f, companion}, nil)
	return first
}

// SetCgo sets CgoEnabled of the importer's build context (extract uses go/build's default context).
func (m *SrcImporter) SetCgo(on bool) { m.ctx.CgoEnabled = on }

// SetGOPATH makes the importer resolve non-standard packages from a GOPATH (GO111MODULE=off layout).
func (m *SrcImporter) SetGOPATH(p string) { m.ctx.GOPATH = p }

func importsPath(imports map[string]string, path string) bool {
	for _, p := range imports {
		if p == path {
			return true
		}
	}
	return false
}

func selector(e ast.Expr) (string, string, bool) {
	if s, ok := e.(*ast.SelectorExpr); ok {
		if id, ok := s.X.(*ast.Ident); ok {
			return id.Name, s.Sel.Name, true
		}
	}
	return "", "", false
}

func checkEntry(tf TableFile, res *FileResult, bad func(pkg, name, kind, what, val string), pkgPath string, pkg *types.Package, imports map[string]string, name string, v ast.Expr, wrappers map[string]*ast.StructType, methods map[string][]*ast.FuncDecl) {
	// unwrap reflect.ValueOf(X) [.Elem()]
	elem := false
	call, ok := v.(*ast.CallExpr)
	if ok {
		if q, s, ok2 := selector(call.Fun); ok2 && q != "reflect" && s == "Elem" {
			_ = q
		}
		if se, ok2 := call.Fun.(*ast.SelectorExpr); ok2 && se.Sel.Name == "Elem" {
			if inner, ok3 := se.X.(*ast.CallExpr); ok3 {
				elem = true
				call = inner
			}
		}
	}
	if !ok || len(call.Args) != 1 {
		bad(pkgPath, name, "form", "entry is not reflect.ValueOf(...)", "")
		return
	}
	if q, s, ok := selector(call.Fun); !ok || q != "reflect" || s != "ValueOf" {
		bad(pkgPath, name, "form", "entry is not reflect.ValueOf(...)", "")
		return
	}
	arg := call.Args[0]
	short := pkgPath[strings.LastIndex(pkgPath, "/")+1:]
	qualOK := func(q string) bool {
		return imports[q] == pkgPath || (imports[q] == "" && q == pkg.Name() && importsPath(imports, pkgPath))
	}
	lookup := func(n string) types.Object {
		o := pkg.Scope().Lookup(n)
		if o == nil || !o.Exported() {
			return nil
		}
		return o
	}
	// wrapper entries "_I"
	if strings.HasPrefix(name, "_") {
		res.Counts["wrappers"]++
		checkWrapper(tf.Release, res, bad, pkgPath, pkg, short, name, arg, wrappers, methods)
		return
	}
	// documented replacements
	if repl, ok := replacements[short+"."+name]; ok && pkgPath == short && !tf.NoReplacements {
		got := ""
		switch x := arg.(type) {
		case *ast.Ident:
			got = x.Name
		case *ast.CallExpr: // (*logLogger)(nil)
			if p, ok := x.Fun.(*ast.ParenExpr); ok {
				if st, ok := p.X.(*ast.StarExpr); ok {
					if id, ok := st.X.(*ast.Ident); ok {
						got = id.Name
					}
				}
			}
		}
		res.Counts["documented_replacements"]++
		if got != repl {
			bad(pkgPath, name, "replacement", "documented restricted replacement "+repl+" expected, table binds "+exprString(arg), "")
		}
		return
	}
	switch x := arg.(type) {
	case *ast.UnaryExpr: // &pkg.V  (must be followed by .Elem())
		q, s, ok := selector(x.X)
		if !ok || x.Op != token.AND || !elem {
			bad(pkgPath, name, "form", "unexpected variable form "+exprString(arg), "")
			return
		}
		res.Counts["vars"]++
		if s != name || !qualOK(q) {
			bad(pkgPath, name, "var", "bound to "+q+"."+s, "")
			return
		}
		if o, ok := lookup(name).(*types.Var); !ok || o == nil {
			bad(pkgPath, name, "var", "reference package has no exported variable of this name", "")
		}
	case *ast.SelectorExpr: // pkg.F or typed constant pkg.C
		q, s, _ := selector(x)
		res.Counts["funcs_and_typed_consts"]++
		if s != name || !qualOK(q) || elem {
			bad(pkgPath, name, "func", "bound to "+q+"."+s, "")
			return
		}
		switch o := lookup(name).(type) {
		case *types.Func:
		case *types.Const:
			if b, ok := o.Type().Underlying().(*types.Basic); ok && b.Info()&types.IsUntyped != 0 && b.Kind() != types.UntypedBool && !exactComplex(o.Val(), b) {
				bad(pkgPath, name, "const", "untyped constant bound by value (loses its untypedness)", "")
			}
		default:
			bad(pkgPath, name, "func", "reference package has no exported function or typed constant of this name", "")
		}
	case *ast.CallExpr:
		// (*pkg.T)(nil)  or  constant.MakeFromLiteral(lit, token.K, 0)
		if p, ok := x.Fun.(*ast.ParenExpr); ok {
			st, ok := p.X.(*ast.StarExpr)
			if !ok {
				bad(pkgPath, name, "form", "unexpected type form", "")
				return
			}
			q, s, ok := selector(st.X)
			res.Counts["types"]++
			if !ok || s != name || !qualOK(q) {
				bad(pkgPath, name, "type", "bound to "+exprString(st.X), "")
				return
			}
			if o, ok := lookup(name).(*types.TypeName); !ok || o == nil {
				bad(pkgPath, name, "type", "reference package has no exported type of this name", "")
			}
			return
		}
		if q, s, ok := selector(x.Fun); ok && q == "constant" && s == "MakeFromLiteral" && len(x.Args) == 3 {
			res.Counts["consts"]++
			lit, _ := strconv.Unquote(x.Args[0].(*ast.BasicLit).Value)
			_, tk, _ := selector(x.Args[1])
			tokKind := map[string]token.Token{"INT": token.INT, "FLOAT": token.FLOAT, "IMAG": token.IMAG, "CHAR": token.CHAR, "STRING": token.STRING}[tk]
			val := constant.MakeFromLiteral(lit, tokKind, 0)
			o, ok := lookup(name).(*types.Const)
			if !ok || o == nil {
				bad(pkgPath, name, "const", "reference package has no exported constant of this name", lit)
				return
			}
			if val.Kind() == constant.Unknown {
				bad(pkgPath, name, "const", "literal does not parse as "+tk, lit)
				return
			}
			if !constant.Compare(val, token.EQL, o.Val()) {
				what := "value differs from the reference: table " + short4(val.ExactString()) + " reference " + short4(o.Val().ExactString())
				p := Problem{File: filepath.Base(tf.Path), Pkg: pkgPath, Name: name, Kind: "const", What: what, Plat: tf.GOOS + "/" + tf.GOARCH, Value: lit}
				// non-dyadic float constants are stored as the decimal expansion of a binary rounding (generator design):
				// recognised when the table value equals the reference rounded to a big.Float of the generator's precision
				if tk == "FLOAT" && roundedEqual(val, o.Val()) {
					res.Floats = append(res.Floats, p)
					return
				}
				res.Problems = append(res.Problems, p)
			}
			return
		}
		bad(pkgPath, name, "form", "unexpected entry form "+exprString(arg), "")
	default:
		bad(pkgPath, name, "form", "unexpected entry form "+exprString(arg), "")
	}
}

// exactComplex: an untyped complex constant bound by value keeps exactly its value when both parts are float64 values.
func exactComplex(v constant.Value, b *types.Basic) bool {
	if b.Kind() != types.UntypedComplex {
		return false
	}
	_, e1 := constant.Float64Val(constant.Real(v))
	_, e2 := constant.Float64Val(constant.Imag(v))
	return e1 && e2
}

func short4(s string) string {
	if len(s) > 60 {
		return s[:28] + "…" + s[len(s)-28:]
	}
	return s
}

// roundedEqual: table value == reference value rounded to float precision 512 bits or less (relative error < 2^-200).
func roundedEqual(table, ref constant.Value) bool {
	d := constant.BinaryOp(table, token.SUB, ref)
	if constant.Sign(d) < 0 {
		d = constant.UnaryOp(token.SUB, d, 0)
	}
	a := ref
	if constant.Sign(a) < 0 {
		a = constant.UnaryOp(token.SUB, a, 0)
	}
	bound := constant.BinaryOp(a, token.QUO, constant.Shift(constant.MakeInt64(1), token.SHL, 200))
	return constant.Compare(d, token.LSS, bound)
}

func exprString(e ast.Expr) string {
	switch x := e.(type) {
	case *ast.Ident:
		return x.Name
	case *ast.SelectorExpr:
		return exprString(x.X) + "." + x.Sel.Name
	case *ast.StarExpr:
		return "*" + exprString(x.X)
	case *ast.UnaryExpr:
		return x.Op.String() + exprString(x.X)
	case *ast.ParenExpr:
		return "(" + exprString(x.X) + ")"
	case *ast.CallExpr:
		return exprString(x.Fun) + "(…)"
	}
	return fmt.Sprintf("%T", e)
}

// checkWrapper: "_I": reflect.ValueOf((*_pkg_I)(nil)); struct _pkg_I{IValue; W<M> func...}; one method per
// interface method, same parameter/variadic/result lists, body forwards to the field of the same name.
func checkWrapper(release int, res *FileResult, bad func(pkg, name, kind, what, val string), pkgPath string, pkg *types.Package, short, name string, arg ast.Expr, wrappers map[string]*ast.StructType, methods map[string][]*ast.FuncDecl) {
	iname := name[1:]
	wname := ""
	if c, ok := arg.(*ast.CallExpr); ok {
		if p, ok := c.Fun.(*ast.ParenExpr); ok {
			if st, ok := p.X.(*ast.StarExpr); ok {
				if id, ok := st.X.(*ast.Ident); ok {
					wname = id.Name
				}
			}
		}
	}
	st := wrappers[wname]
	if st == nil {
		bad(pkgPath, name, "wrapper", "wrapper type "+wname+" not declared in the file", "")
		return
	}
	tn, ok := pkg.Scope().Lookup(iname).(*types.TypeName)
	if !ok {
		bad(pkgPath, name, "wrapper", "reference package has no type "+iname, "")
		return
	}
	it, ok := tn.Type().Underlying().(*types.Interface)
	if !ok {
		bad(pkgPath, name, "wrapper", iname+" is not an interface in the reference package", "")
		return
	}
	fields := map[string]*ast.FuncType{}
	for _, fl := range st.Fields.List {
		for _, n := range fl.Names {
			if ft, ok := fl.Type.(*ast.FuncType); ok {
				fields[n.Name] = ft
			}
		}
	}
	ms := map[string]*ast.FuncDecl{}
	for _, m := range methods[wname] {
		ms[m.Name.Name] = m
	}
	for i := 0; i < it.NumMethods(); i++ {
		m := it.Method(i)
		if !m.Exported() {
			continue
		}
		if release > 0 && !apiHasMethod(pkgPath, iname, m.Name(), release) {
			res.Counts["interface_methods_newer_than_release"]++
			continue
		}
		res.Counts["wrapper_methods"]++
		sig := m.Type().(*types.Signature)
		fd := ms[m.Name()]
		ft := fields["W"+m.Name()]
		if fd == nil || ft == nil {
			bad(pkgPath, name, "wrapper", "interface method "+m.Name()+" has no wrapper method or no W"+m.Name()+" field", "")
			continue
		}
		if !sameShape(fd.Type, sig) || !sameShape(ft, sig) {
			bad(pkgPath, name, "wrapper", "method "+m.Name()+": parameter/result lists differ from the interface ("+sig.String()+")", "")
			continue
		}
		// body: last statement calls W.W<Name>(params...) with ... on a variadic parameter
		if !forwards(fd, "W"+m.Name(), sig.Variadic()) {
			bad(pkgPath, name, "wrapper", "method "+m.Name()+" does not forward all its arguments to W.W"+m.Name(), "")
		}
	}
	for n := range ms {
		found := false
		for i := 0; i < it.NumMethods(); i++ {
			if it.Method(i).Name() == n {
				found = true
			}
		}
		if !found {
			bad(pkgPath, name, "wrapper", "wrapper has method "+n+" that the interface does not declare", "")
		}
	}
}

// sameShape compares arity, variadic-ness and the spelled types (base identifiers) of an AST signature with a types.Signature.
func sameShape(ft *ast.FuncType, sig *types.Signature) bool {
	count := func(fl *ast.FieldList) (n int, last ast.Expr, all []ast.Expr) {
		if fl == nil {
			return
		}
		for _, f := range fl.List {
			k := len(f.Names)
			if k == 0 {
				k = 1
			}
			for i := 0; i < k; i++ {
				all = append(all, f.Type)
			}
			n += k
			last = f.Type
		}
		return
	}
	np, lastP, ptypes := count(ft.Params)
	nr, _, rtypes := count(ft.Results)
	if np != sig.Params().Len() || nr != sig.Results().Len() {
		return false
	}
	_, isEll := lastP.(*ast.Ellipsis)
	if isEll != sig.Variadic() {
		return false
	}
	cmp := func(es []ast.Expr, tup *types.Tuple) bool {
		for i, e := range es {
			if baseName(e) != typeBase(tup.At(i).Type()) {
				return false
			}
		}
		return true
	}
	return cmp(ptypes, sig.Params()) && cmp(rtypes, sig.Results())
}

// baseName / typeBase reduce a type to a comparable spelling: kind prefix + innermost named/basic identifier.
func baseName(e ast.Expr) string {
	switch x := e.(type) {
	case *ast.Ident:
		switch x.Name {
		case "any":
			return "interface"
		case "byte":
			return "uint8"
		case "rune":
			return "int32"
		}
		return x.Name
	case *ast.SelectorExpr:
		return x.Sel.Name
	case *ast.StarExpr:
		return "*" + baseName(x.X)
	case *ast.ArrayType:
		if x.Len == nil {
			return "[]" + baseName(x.Elt)
		}
		return "[n]" + baseName(x.Elt)
	case *ast.Ellipsis:
		return "[]" + baseName(x.Elt)
	case *ast.MapType:
		return "map[" + baseName(x.Key) + "]" + baseName(x.Value)
	case *ast.ChanType:
		return "chan " + baseName(x.Value)
	case *ast.FuncType:
		return "func"
	case *ast.InterfaceType:
		return "interface"
	case *ast.StructType:
		return "struct"
	case *ast.IndexExpr:
		return baseName(x.X)
	}
	return "?"
}

func typeBase(t types.Type) string {
	switch x := t.(type) {
	case *types.Basic:
		n := x.Name()
		if n == "byte" {
			return "uint8"
		}
		if n == "rune" {
			return "int32"
		}
		return n
	case *types.Named:
		return x.Obj().Name()
	case *types.Alias:
		if x.Obj().Name() == "any" {
			return "interface"
		}
		return typeBase(types.Unalias(x))
	case *types.Pointer:
		return "*" + typeBase(x.Elem())
	case *types.Slice:
		return "[]" + typeBase(x.Elem())
	case *types.Array:
		return "[n]" + typeBase(x.Elem())
	case *types.Map:
		return "map[" + typeBase(x.Key()) + "]" + typeBase(x.Elem())
	case *types.Chan:
		return "chan " + typeBase(x.Elem())
	case *types.Signature:
		return "func"
	case *types.Interface:
		return "interface"
	case *types.Struct:
		return "struct"
	case *types.TypeParam:
		return x.Obj().Name()
	}
	return "?"
}

func forwards(fd *ast.FuncDecl, field string, variadic bool) bool {
	if fd.Body == nil || len(fd.Body.List) == 0 {
		return false
	}
	var params []string
	for _, f := range fd.Type.Params.List {
		for _, n := range f.Names {
			params = append(params, n.Name)
		}
	}
	last := fd.Body.List[len(fd.Body.List)-1]
	var call *ast.CallExpr
	switch s := last.(type) {
	case *ast.ReturnStmt:
		if len(s.Results) == 1 {
			call, _ = s.Results[0].(*ast.CallExpr)
		}
	case *ast.ExprStmt:
		call, _ = s.X.(*ast.CallExpr)
	}
	if call == nil {
		return false
	}
	q, s, ok := selector(call.Fun)
	if !ok || q != fd.Recv.List[0].Names[0].Name || s != field || len(call.Args) != len(params) {
		return false
	}
	for i, a := range call.Args {
		id, ok := a.(*ast.Ident)
		if !ok || id.Name != params[i] {
			return false
		}
	}
	return call.Ellipsis.IsValid() == variadic
}
