// Package emit turns a list of program texts into a native Go package in which
// every program is a function (top-level identifiers suffixed per case by an AST
// rename, never textually), registered together with its unmodified source.
package emit

import (
	"bytes"
	"fmt"
	"go/ast"
	"go/importer"
	"go/parser"
	"go/printer"
	"go/token"
	"go/types"
	"os"
	"path/filepath"
	"runtime"
	"sort"
	"strconv"
	"strings"
	"sync"
)

// Src is a program to emit.
type Src struct {
	Name string
	Text string // complete file: package main; imports; decls; func main()
}

// HSource is the go/types view of verif/engine/twin/h (Show and the typed recorders of C07).
const HSource = `package h
func Show(a ...interface{}) {}
func HAny(x interface{}) string { return "" }
func HTwo(a interface{}, b int) string { return "" }
func HVar(xs ...interface{}) string { return "" }
func HInt(x int) string { return "" }
func HStr(x string) string { return "" }
func HInts(xs []int) string { return "" }
func HErr(e error) string { return "" }
func HFn(f func(int) int) string { return "" }
func HIntP(p *int) string { return "" }
func HSumIs(want int, xs ...int) bool { return false }
func HCountIs(n int, xs ...interface{}) bool { return false }
func HPair(x int) (int, string) { return 0, "" }
func HTriple(x int) (int, int, int) { return 0, 0, 0 }
func HDivMod(a, b int) (int, int, error) { return 0, 0, nil }
func HDouble(x int) int { return 0 }
func HStruct(x int) (struct{ A, B int }, bool) { return struct{ A, B int }{}, false }
`

type mapImporter struct {
	mu   sync.Mutex
	pkgs map[string]*types.Package
	src  types.Importer
}

func (m *mapImporter) Import(path string) (*types.Package, error) {
	m.mu.Lock()
	defer m.mu.Unlock()
	if p, ok := m.pkgs[path]; ok {
		return p, nil
	}
	p, err := m.src.Import(path)
	if err == nil {
		m.pkgs[path] = p
	}
	return p, err
}

// NewImporter returns a concurrency-safe importer knowing package h and the standard library (from source).
func NewImporter() types.Importer {
	fset := token.NewFileSet()
	f, err := parser.ParseFile(fset, "h.go", HSource, 0)
	if err != nil {
		panic(err)
	}
	hp, err := (&types.Config{}).Check("verif/engine/twin/h", fset, []*ast.File{f}, nil)
	if err != nil {
		panic(err)
	}
	return &mapImporter{pkgs: map[string]*types.Package{"verif/engine/twin/h": hp}, src: importer.ForCompiler(token.NewFileSet(), "source", nil)}
}

// Checked is a type-checked program.
type Checked struct {
	Fset *token.FileSet
	File *ast.File
	Info *types.Info
	Pkg  *types.Package
	Err  error
}

// Check parses and type-checks one program text.
func Check(imp types.Importer, text string) Checked {
	fset := token.NewFileSet()
	f, err := parser.ParseFile(fset, "case.go", text, parser.SkipObjectResolution)
	if err != nil {
		return Checked{Err: err}
	}
	info := &types.Info{Defs: map[*ast.Ident]types.Object{}, Uses: map[*ast.Ident]types.Object{}, Types: map[ast.Expr]types.TypeAndValue{}, InitOrder: nil}
	var first error
	conf := types.Config{Importer: imp, GoVersion: "go1.22", Error: func(e error) {
		if first == nil {
			first = e
		}
	}}
	pkg, _ := conf.Check("main", fset, []*ast.File{f}, info)
	return Checked{Fset: fset, File: f, Info: info, Pkg: pkg, Err: first}
}

// Root is the verif module directory (VERIF_ROOT, default /verif).
func Root() string {
	if r := os.Getenv("VERIF_ROOT"); r != "" {
		return r
	}
	return "/verif"
}

// Result of Package.
type Result struct {
	Emitted  int
	Rejected []string // names of programs go/types rejected, with the error
}

// Package writes the native package for srcs into dir (package name pkg), in `shards` files.
// Programs that go/types rejects are not emitted and are reported in Result.Rejected.
func Package(dir, pkg string, srcs []Src, shards int) (Result, error) {
	if err := os.MkdirAll(dir, 0o755); err != nil {
		return Result{}, err
	}
	imp := NewImporter()
	// warm the importer sequentially for determinism of errors
	type piece struct {
		body    string
		imports []string
		err     string
	}
	pieces := make([]piece, len(srcs))
	var wg sync.WaitGroup
	nw := runtime.NumCPU()
	ch := make(chan int, 1024)
	for w := 0; w < nw; w++ {
		wg.Add(1)
		go func() {
			defer wg.Done()
			for i := range ch {
				body, imps, err := rename(imp, srcs[i].Text, i)
				if err != nil {
					pieces[i].err = err.Error()
					continue
				}
				pieces[i] = piece{body: body, imports: imps}
			}
		}()
	}
	for i := range srcs {
		ch <- i
	}
	close(ch)
	wg.Wait()
	var res Result
	if shards < 1 {
		shards = 1
	}
	keep := map[string]bool{}
	per := (len(srcs) + shards - 1) / shards
	rel, err := filepath.Rel(Root(), filepath.Clean(dir))
	if err != nil {
		return res, err
	}
	imppath := "verif/" + filepath.ToSlash(rel)
	var subs []string
	for s := 0; s < shards; s++ {
		lo, hi := s*per, (s+1)*per
		if hi > len(srcs) {
			hi = len(srcs)
		}
		if lo >= hi {
			break
		}
		impset := map[string]bool{}
		var body bytes.Buffer
		var reg bytes.Buffer
		for i := lo; i < hi; i++ {
			if pieces[i].err != "" {
				res.Rejected = append(res.Rejected, srcs[i].Name+": "+pieces[i].err)
				continue
			}
			res.Emitted++
			for _, p := range pieces[i].imports {
				impset[p] = true
			}
			body.WriteString(pieces[i].body)
			body.WriteString("\n")
			fmt.Fprintf(&reg, "\ttwin.Register(twin.Case{Name: %s, Src: %s, Native: Main_c%d})\n", strconv.Quote(srcs[i].Name), strconv.Quote(srcs[i].Text), i)
		}
		sub := fmt.Sprintf("s%03d", s)
		subs = append(subs, sub)
		var out bytes.Buffer
		fmt.Fprintf(&out, "// Code generated by verif/engine/twin/emit. DO NOT EDIT.\n\npackage %s\n\nimport (\n\t\"verif/engine/twin\"\n", sub)
		var ips []string
		for p := range impset {
			ips = append(ips, p)
		}
		sort.Strings(ips)
		for _, p := range ips {
			fmt.Fprintf(&out, "\t%s\n", p)
		}
		out.WriteString(")\n\nfunc init() {\n")
		out.Write(reg.Bytes())
		out.WriteString("}\n\n")
		out.Write(body.Bytes())
		os.MkdirAll(filepath.Join(dir, sub), 0o755)
		name := filepath.Join(dir, sub, "cases.go")
		keep[filepath.Join(dir, sub)] = true
		b := out.Bytes()
		if prev, err := os.ReadFile(name); err == nil && bytes.Equal(prev, b) {
			continue
		}
		if err := os.WriteFile(name, b, 0o644); err != nil {
			return res, err
		}
	}
	var all bytes.Buffer
	fmt.Fprintf(&all, "// Code generated by verif/engine/twin/emit. DO NOT EDIT.\n\npackage %s\n\nimport (\n", pkg)
	for _, sub := range subs {
		fmt.Fprintf(&all, "\t_ \"%s/%s\"\n", imppath, sub)
	}
	all.WriteString(")\n")
	if prev, err := os.ReadFile(filepath.Join(dir, "all.go")); err != nil || !bytes.Equal(prev, all.Bytes()) {
		if err := os.WriteFile(filepath.Join(dir, "all.go"), all.Bytes(), 0o644); err != nil {
			return res, err
		}
	}
	ents, _ := os.ReadDir(dir)
	for _, e := range ents {
		full := filepath.Join(dir, e.Name())
		if e.IsDir() && !keep[full] {
			os.RemoveAll(full)
		} else if !e.IsDir() && e.Name() != "all.go" {
			os.Remove(full)
		}
	}
	return res, nil
}

// rename type-checks text and returns its declarations with every package-level
// identifier suffixed by _c<n> (main becomes Main_c<n>), plus its import specs.
func rename(imp types.Importer, text string, n int) (string, []string, error) {
	c := Check(imp, text)
	if c.Err != nil {
		return "", nil, c.Err
	}
	suffix := fmt.Sprintf("_c%d", n)
	scope := c.Pkg.Scope()
	isTop := func(o types.Object) bool {
		if o == nil || o.Pkg() != c.Pkg {
			return false
		}
		if o.Parent() == scope {
			return true
		}
		return false
	}
	for id, o := range c.Info.Defs {
		if isTop(o) && id.Name != "_" {
			if id.Name == "main" {
				id.Name = "Main" + suffix
			} else if id.Name != "init" {
				id.Name += suffix
			}
		}
	}
	embeddedTop := func(o types.Object) bool {
		v, ok := o.(*types.Var)
		if !ok || !v.IsField() || !v.Embedded() {
			return false
		}
		t := v.Type()
		if p, ok := t.(*types.Pointer); ok {
			t = p.Elem()
		}
		if nt, ok := t.(*types.Named); ok {
			return isTop(nt.Obj())
		}
		if at, ok := t.(*types.Alias); ok {
			return isTop(at.Obj())
		}
		return false
	}
	for id, o := range c.Info.Uses {
		if embeddedTop(o) {
			id.Name += suffix
			continue
		}
		if isTop(o) {
			if id.Name == "main" {
				id.Name = "Main" + suffix
			} else {
				id.Name += suffix
			}
		}
	}
	var imps []string
	var buf bytes.Buffer
	for _, d := range c.File.Decls {
		if g, ok := d.(*ast.GenDecl); ok && g.Tok == token.IMPORT {
			for _, s := range g.Specs {
				is := s.(*ast.ImportSpec)
				spec := is.Path.Value
				if is.Name != nil {
					spec = is.Name.Name + " " + spec
				}
				imps = append(imps, spec)
			}
			continue
		}
		if err := printer.Fprint(&buf, c.Fset, d); err != nil {
			return "", nil, err
		}
		buf.WriteString("\n\n")
	}
	_ = strings.TrimSpace
	return buf.String(), imps, nil
}
