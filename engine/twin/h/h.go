// Package h is the tiny host package shared, under the same import path, by
// natively compiled twins and (through interp.Use) by interpreted scripts.
package h

import (
	"bytes"
	"fmt"
	"reflect"
)

// Cur receives the output of Show on the native side.
var Cur = &bytes.Buffer{}

// Steps counts Show calls (native side).
var Steps int

// Show prints its arguments like fmt.Println.
func Show(a ...interface{}) { Steps++; fmt.Fprintln(Cur, a...) }

// Typed recorders (C07 twins): a host function describes, address-free, what it received and returns the
// description; the script shows it. Kind + value: a value that crossed the boundary intact renders the same
// natively and under the interpreter.
func desc(x interface{}) string {
	v := reflect.ValueOf(x)
	for d := 0; v.IsValid() && v.Kind() == reflect.Ptr && d < 3; d++ {
		if v.IsNil() {
			return "nil-ptr"
		}
		v = v.Elem()
		if v.CanInterface() {
			return "ptr->" + desc(v.Interface())
		}
	}
	if !v.IsValid() {
		return "nil"
	}
	if v.Kind() == reflect.Func {
		if f, ok := x.(func(int) int); ok {
			return fmt.Sprint("func(int)int f(5)=", f(5))
		}
		return "func"
	}
	return fmt.Sprint(v.Kind(), "|", x)
}

func HAny(x interface{}) string { return "Any " + desc(x) }

func HTwo(a interface{}, b int) string { return "Two " + desc(a) + " " + fmt.Sprint(b) }

func HVar(xs ...interface{}) string {
	s := fmt.Sprint("Var ", len(xs))
	for _, x := range xs {
		s += " " + desc(x)
	}
	return s
}

func HInt(x int) string { return fmt.Sprint("Int ", x) }

func HStr(x string) string { return fmt.Sprintf("Str %q", x) }

func HInts(xs []int) string { return fmt.Sprint("Ints ", len(xs), xs) }

func HErr(e error) string {
	if e == nil {
		return "Err nil"
	}
	return "Err " + e.Error()
}

func HFn(f func(int) int) string { return fmt.Sprint("Fn ", f(3), f(4)) }

func HIntP(p *int) string {
	if p == nil {
		return "IntP nil"
	}
	*p += 100
	return fmt.Sprint("IntP ", *p-100)
}

// HSumIs and HCountIs are bool-returning variadic recorders (usable directly as conditions).
func HSumIs(want int, xs ...int) bool {
	s := 0
	for _, x := range xs {
		s += x
	}
	return s == want
}

func HCountIs(n int, xs ...interface{}) bool { return len(xs) == n }

// Multi-result host functions (C07 family R: how the RESULTS of a host call are stored).
func HPair(x int) (int, string) { return x + 40, fmt.Sprint("s", x) }

func HTriple(x int) (int, int, int) { return x + 1, x + 2, x + 3 }

func HDivMod(a, b int) (int, int, error) {
	if b == 0 {
		return 0, 0, fmt.Errorf("div by zero")
	}
	return a / b, a % b, nil
}

func HDouble(x int) int { return x * 2 }

func HStruct(x int) (struct{ A, B int }, bool) { return struct{ A, B int }{x, x + 1}, x > 0 }

// Exports returns the symbol table that gives scripts a Show writing into buf.
func Exports(buf *bytes.Buffer, steps *int) map[string]map[string]reflect.Value {
	return map[string]map[string]reflect.Value{
		"verif/engine/twin/h/h": {
			"Show": reflect.ValueOf(func(a ...interface{}) { *steps++; fmt.Fprintln(buf, a...) }),
			"HAny": reflect.ValueOf(HAny), "HTwo": reflect.ValueOf(HTwo), "HVar": reflect.ValueOf(HVar), "HInt": reflect.ValueOf(HInt),
			"HStr": reflect.ValueOf(HStr), "HInts": reflect.ValueOf(HInts), "HErr": reflect.ValueOf(HErr), "HFn": reflect.ValueOf(HFn), "HIntP": reflect.ValueOf(HIntP),
			"HSumIs": reflect.ValueOf(HSumIs), "HCountIs": reflect.ValueOf(HCountIs),
			"HPair": reflect.ValueOf(HPair), "HTriple": reflect.ValueOf(HTriple), "HDivMod": reflect.ValueOf(HDivMod), "HDouble": reflect.ValueOf(HDouble), "HStruct": reflect.ValueOf(HStruct),
		},
	}
}
