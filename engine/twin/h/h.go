// Package h is the tiny host package shared, under the same import path, by
// natively compiled twins and (through interp.Use) by interpreted scripts.
package h

import (
	"bytes"
	"fmt"
	"reflect"
)

// Cur receives the output of Show on the native side.
var Cur = &bytes.Buffer{}

// Steps counts Show calls (native side).
var Steps int

// Show prints its arguments like fmt.Println.
func Show(a ...interface{}) { Steps++; fmt.Fprintln(Cur, a...) }

// Exports returns the symbol table that gives scripts a Show writing into buf.
func Exports(buf *bytes.Buffer, steps *int) map[string]map[string]reflect.Value {
	return map[string]map[string]reflect.Value{
		"verif/engine/twin/h/h": {
			"Show": reflect.ValueOf(func(a ...interface{}) { *steps++; fmt.Fprintln(buf, a...) }),
		},
	}
}
