// Package twin runs one program text twice: interpreted by yaegi and as the
// natively compiled function emitted from the identical text by twin/emit.
package twin

import (
	"bytes"
	"errors"
	"fmt"
	"reflect"
	"runtime"
	"strings"

	"github.com/traefik/yaegi/interp"
	"verif/engine/twin/h"
)

// Case is one program: its source for the interpreter and its compiled twin.
type Case struct {
	Name   string
	Src    string
	Native func()
}

// Cases is filled by the init functions of generated packages.
var Cases []Case

// Register adds a generated case.
func Register(c Case) { Cases = append(Cases, c) }

// Obs is what is compared between the two executions.
type Obs struct {
	Out   string `json:"out"`
	End   string `json:"end"`             // "return", "panic", "reject" (interpreter refused the program), "hostpanic"
	Panic string `json:"panic,omitempty"` // "fault" for run-time errors, else "value:<type-free rendering>"
	Err   string `json:"err,omitempty"`   // interpreter error text (never compared)
	Steps int    `json:"steps"`
}

func classify(v interface{}) string {
	if _, ok := v.(runtime.Error); ok {
		return "fault"
	}
	switch x := v.(type) {
	case error:
		return "value:error:" + x.Error()
	case string:
		return "value:string:" + x
	case int:
		return fmt.Sprintf("value:int:%d", x)
	}
	// values of script-declared types have no common Go type on both sides: rendering only
	return "value:other:" + fmt.Sprint(v)
}

// RunNative executes the compiled twin.
func RunNative(c Case) (o Obs) {
	h.Cur = &bytes.Buffer{}
	h.Steps = 0
	defer func() {
		o.Out = h.Cur.String()
		o.Steps = h.Steps
		if r := recover(); r != nil {
			o.End = "panic"
			o.Panic = classify(r)
		}
	}()
	o.End = "return"
	c.Native()
	return
}

// Options for the interpreted side.
type Options struct {
	Use []interp.Exports // extra symbol tables (e.g. stdlib.Symbols)
	// After, when set, is evaluated on the same interpreter after the program, whatever its ending
	// (the interpreter must remain usable); "after <value>\n" is appended to the interpreter output and
	// AfterExpect to the native one.
	After       string
	AfterExpect string
	// Entry, when set, is evaluated after the source (interactive style: the source only declares,
	// e.g. func Main(); Entry = "Main()"). Needed whenever After is used: any later Eval in package
	// main re-runs a function called main.
	Entry string
}

// RunInterp evaluates src in a fresh interpreter.
func RunInterp(src string, opt Options) (o Obs) {
	var buf bytes.Buffer
	steps := 0
	defer func() {
		o.Out = buf.String()
		o.Steps = steps
		if r := recover(); r != nil {
			o.End = "hostpanic"
			o.Err = fmt.Sprint(r)
		}
	}()
	i := interp.New(interp.Options{Stdout: &buf, Stderr: &bytes.Buffer{}})
	for _, u := range opt.Use {
		if err := i.Use(u); err != nil {
			panic(err)
		}
	}
	if err := i.Use(h.Exports(&buf, &steps)); err != nil {
		panic(err)
	}
	_, err := i.Eval(src)
	if err == nil && opt.Entry != "" {
		_, err = i.Eval(opt.Entry)
	}
	o.End = "return"
	if err != nil {
		o.Err = firstLine(err.Error())
		var p interp.Panic
		if errors.As(err, &p) {
			o.End = "panic"
			o.Panic = classify(p.Value)
			if rv, ok := p.Value.(*reflect.ValueError); ok && rv != nil {
				o.Panic = "fault"
			}
		} else {
			o.End = "reject"
		}
	}
	if opt.After != "" && o.End != "reject" {
		v, err := i.Eval(opt.After)
		if err != nil {
			fmt.Fprintln(&buf, "after: error:", firstLine(err.Error()))
		} else {
			fmt.Fprintln(&buf, "after", v.Interface())
		}
	}
	return
}

func firstLine(s string) string {
	if i := strings.IndexByte(s, '\n'); i >= 0 {
		s = s[:i]
	}
	if len(s) > 200 {
		s = s[:200]
	}
	return s
}

// Same reports whether the interpreted observation matches the native one.
// Run-time fault texts are not compared: when the native twin ends with a
// run-time error, any interpreter panic at the same output position agrees.
func Same(native, it Obs) bool {
	if native.Out != it.Out || native.End != it.End {
		return false
	}
	if native.End == "panic" && native.Panic != "fault" && native.Panic != it.Panic {
		return false
	}
	return true
}

// Diff describes the first difference.
func Diff(native, it Obs) string {
	if native.End != it.End {
		return fmt.Sprintf("ending: native=%s interp=%s (%s)", native.End, it.End, it.Err)
	}
	if native.Out != it.Out {
		nl, il := strings.Split(native.Out, "\n"), strings.Split(it.Out, "\n")
		for k := 0; k < len(nl) || k < len(il); k++ {
			a, b := "<none>", "<none>"
			if k < len(nl) {
				a = nl[k]
			}
			if k < len(il) {
				b = il[k]
			}
			if a != b {
				return fmt.Sprintf("output line %d: native=%q interp=%q", k+1, a, b)
			}
		}
	}
	return fmt.Sprintf("panic value: native=%q interp=%q", native.Panic, it.Panic)
}
