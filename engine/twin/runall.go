package twin

import (
	"crypto/sha1"
	"encoding/hex"
	"fmt"
	"os"
	"sort"
	"strings"
	"time"

	"verif/engine/par"
	"verif/engine/report"
)

// FailCase is the replayable form of a failing program.
type FailCase struct {
	Name   string `json:"name"`
	Src    string `json:"src"`
	Native Obs    `json:"native"`
	Interp Obs    `json:"interp"`
}

type out struct {
	Key  string   `json:"k"`
	What string   `json:"w"`
	FC   FailCase `json:"f"`
}

// KeyFn maps a failing case to its known-finding key.
type KeyFn func(c Case, native, it Obs) string

// DiffLines returns the 1-based numbers of the output lines that differ, compacted ("3-5,9").
func DiffLines(a, b string) string {
	al, bl := strings.Split(a, "\n"), strings.Split(b, "\n")
	n := len(al)
	if len(bl) > n {
		n = len(bl)
	}
	var idx []int
	for k := 0; k < n; k++ {
		x, y := "\x00", "\x00"
		if k < len(al) {
			x = al[k]
		}
		if k < len(bl) {
			y = bl[k]
		}
		if x != y {
			idx = append(idx, k+1)
		}
	}
	var parts []string
	for i := 0; i < len(idx); {
		j := i
		for j+1 < len(idx) && idx[j+1] == idx[j]+1 {
			j++
		}
		if j > i {
			parts = append(parts, fmt.Sprintf("%d-%d", idx[i], idx[j]))
		} else {
			parts = append(parts, fmt.Sprint(idx[i]))
		}
		i = j + 1
	}
	s := strings.Join(parts, ",")
	if len(s) > 60 {
		h := sha1.Sum([]byte(s))
		s = s[:40] + "…#" + hex.EncodeToString(h[:4])
	}
	return s
}

// Pattern describes which output lines differ, independent of table sizes where possible:
// "silentstop@first"/"silentstop@L<n>" when the interpreter ended normally but its output is a strict
// prefix of the native output; "cols:<set>/<m>" when the differing lines are the same columns of every
// row of period m; otherwise the raw differing line numbers.
func Pattern(n, i Obs) string {
	if n.End == "return" && i.End == "return" && len(i.Out) < len(n.Out) && strings.HasPrefix(n.Out, i.Out) {
		if i.Out == "" {
			return "silentstop@first"
		}
		return fmt.Sprintf("silentstop@L%d", strings.Count(i.Out, "\n")+1)
	}
	al, bl := strings.Split(n.Out, "\n"), strings.Split(i.Out, "\n")
	if len(al) == len(bl) {
		N := len(al) - 1
		diff := make([]bool, N)
		for k := 0; k < N; k++ {
			diff[k] = al[k] != bl[k]
		}
		for m := 2; m <= N/2; m++ {
			if N%m != 0 {
				continue
			}
			ok := true
			for k := m; k < N && ok; k++ {
				ok = diff[k] == diff[k-m]
			}
			if ok {
				var cols []string
				for k := 0; k < m; k++ {
					if diff[k] {
						cols = append(cols, fmt.Sprint(k))
					}
				}
				return fmt.Sprintf("cols:%s/%d", strings.Join(cols, ","), m)
			}
		}
	}
	return "lines:" + DiffLines(n.Out, i.Out)
}

// DefaultKey: program name + ending pair + which output lines differ.
func DefaultKey(c Case, n, i Obs) string {
	k := c.Name
	if n.End != i.End {
		k += "|end:" + n.End + "/" + i.End
	}
	if n.Out != i.Out {
		k += "|lines:" + DiffLines(n.Out, i.Out)
	} else if n.End == i.End {
		k += "|panicvalue"
	}
	return k
}

// Rekey, when set, may replace the key of a failing case knowing the names of all failing
// cases of the run (attribution to a minimal failing sub-case, DESIGN §1.5).
var Rekey func(name, key string, failing map[string]bool) string

// Symptoms maps the name of every failing case of the run to its symptom (the first difference between the
// native and the interpreted observation). A Rekey function that only reduces towards cases with the SAME symptom
// cannot hide a new misbehaviour of a complex case behind a known misbehaviour of a simpler one.
var Symptoms = map[string]string{}

// RunAll compares every registered case (accepted by filter) and records failures in r.
func RunAll(r *report.Run, filter func(name string) bool, key KeyFn, opt Options, po par.Opts) {
	var sel []int
	for i, c := range Cases {
		if filter == nil || filter(c.Name) {
			sel = append(sel, i)
		}
	}
	if key == nil {
		key = DefaultKey
	}
	if len(sel) == 0 {
		r.HarnessError("no cases selected")
		return
	}
	res := par.Map(len(sel), func(k int) *out {
		c := Cases[sel[k]]
		par.Note("native")
		n := RunNative(c)
		n.Out += opt.AfterExpect
		par.Note("interp")
		it := RunInterp(c.Src, opt)
		par.Count("programs", 1)
		par.Count("show_steps", int64(n.Steps))
		par.Count("ending_"+n.End, 1)
		h := sha1.Sum([]byte(n.Out))
		par.Distinct("outputs", string(h[:8]))
		if strings.Count(n.Out, "\n") >= 2 && !allSameLines(n.Out) {
			par.Count("nontrivial", 1)
		}
		if Same(n, it) {
			return nil
		}
		return &out{Key: key(c, n, it), What: c.Name + ": " + Diff(n, it), FC: FailCase{c.Name, c.Src, n, it}}
	}, po)
	failing := map[string]bool{}
	for _, o := range res.Outs {
		failing[o.FC.Name] = true
		Symptoms[o.FC.Name] = strings.TrimPrefix(o.What, o.FC.Name+": ")
	}
	for _, a := range res.Abnormal {
		failing[Cases[sel[a.Idx]].Name] = true
	}
	// minimal cases (those that are their own key) first, so that they lead the replay files
	var idx []int
	for i := range res.Outs {
		idx = append(idx, i)
	}
	sort.Ints(idx)
	for pass := 0; pass < 2; pass++ {
		for _, i := range idx {
			o := res.Outs[i]
			k := o.Key
			if Rekey != nil {
				k = Rekey(o.FC.Name, k, failing)
			}
			if (k == o.FC.Name) == (pass == 0) {
				r.Fail(report.Failure{Key: k, What: o.What, Case: o.FC})
			}
		}
	}
	for _, a := range res.Abnormal {
		c := Cases[sel[a.Idx]]
		if a.Note != "interp" {
			r.HarnessError("%s: %s outside the interpreter (phase %q): generated program does not terminate natively? %s", c.Name, a.Kind, a.Note, lastLines(a.Log, 3))
			continue
		}
		r.Fail(report.Failure{Key: c.Name + "|" + a.Kind, What: c.Name + ": interpreter " + a.Kind + " (worker lost) " + lastLines(a.Log, 3), Case: FailCase{Name: c.Name, Src: c.Src, Interp: Obs{End: a.Kind}}})
	}
	progs := res.Counts["programs"]
	if int(progs)+len(res.Abnormal) != len(sel) {
		r.HarnessError("programs run %d + abnormal %d != selected %d", progs, len(res.Abnormal), len(sel))
	}
	r.Add("evaluations", progs)
	r.Add("programs", progs)
	r.Add("transitions", res.Counts["show_steps"])
	r.Add("states", int64(len(res.Sets["outputs"])))
	r.Add("traces_validated_against_impl", progs)
	r.Add("distinct_nontrivial", res.Counts["nontrivial"])
	r.Add("abnormal_hang_or_crash", int64(len(res.Abnormal)))
	for k, v := range res.Counts {
		if strings.HasPrefix(k, "ending_") {
			r.Add("native_"+k, v)
		}
	}
	// samples: first, middle, last selected program
	for _, k := range []int{0, len(sel) / 2, len(sel) - 1} {
		c := Cases[sel[k]]
		r.Sample(map[string]string{"name": c.Name, "src": c.Src})
	}
}

func allSameLines(s string) bool {
	l := strings.Split(strings.TrimRight(s, "\n"), "\n")
	for _, x := range l {
		if x != l[0] {
			return false
		}
	}
	return true
}

func lastLines(s string, n int) string {
	l := strings.Split(strings.TrimSpace(s), "\n")
	if len(l) > n {
		l = l[len(l)-n:]
	}
	return strings.Join(l, " | ")
}

// Replay re-runs the cases of a replay file on the plain interpreter (no explorer, no worker
// processes) against the recorded native observation; it exits 1 if any still differs.
func Replay(r *report.Run, opt Options) {
	var cases []FailCase
	if err := report.ReadReplay(r.Replay, &cases); err != nil {
		r.HarnessError("replay: %v", err)
		r.Finish()
	}
	bad := 0
	for _, fc := range cases {
		done := make(chan Obs, 1)
		go func() { done <- RunInterp(fc.Src, opt) }()
		var it Obs
		select {
		case it = <-done:
		case <-time.After(30 * time.Second):
			it = Obs{End: "hang"}
		}
		if Same(fc.Native, it) {
			fmt.Printf("replay %s: agrees with compiled twin now\n", fc.Name)
			continue
		}
		bad++
		fmt.Printf("replay %s: DIFFERS: %s\n--- source ---\n%s\n", fc.Name, Diff(fc.Native, it), fc.Src)
	}
	if bad > 0 {
		fmt.Printf("VIOLATION property=%s replay=%s\n", r.ID, r.Replay)
		exit(1)
	}
	exit(0)
}

func exit(c int) { os.Exit(c) }

// Names returns sorted distinct first words of case names (for evidence).
func Names() []string {
	m := map[string]bool{}
	for _, c := range Cases {
		m[strings.Fields(c.Name)[0]] = true
	}
	var s []string
	for k := range m {
		s = append(s, k)
	}
	sort.Strings(s)
	return s
}
