// Package vsched is a controlled (cooperative) scheduler for stateless exploration of the real
// interpreter: interpreted goroutines, host caller threads and environment threads are real goroutines of
// which exactly one runs at a time; they report to the controller at scheduling points (before each
// interpreted operation, at channel operations, at contended locks). Blocking is modelled (enabledness is
// computed from real channel state, a tracked closed set and the pending descriptors of the other threads),
// execution is real. The package is mounted into the yaegi module by a build overlay as
// github.com/traefik/yaegi/vsched so that the rewritten interp package and the harness share one instance.
package vsched

import (
	"fmt"
	"reflect"
	"runtime"
	"runtime/debug"
	"strconv"
	"strings"
	"sync"
	"sync/atomic"
)

// OpKind is the kind of a pending operation.
type OpKind int

const (
	OpStart  OpKind = iota // thread created, not yet started
	OpStep                 // before an interpreted operation
	OpChan                 // channel operation (select descriptor)
	OpResume               // after having been the passive partner of a rendezvous
	OpCond                 // blocked until Cond() holds (locks, wait groups, native close-only channels)
	OpYield                // always enabled generic point
)

// Op is what a parked thread is about to do.
type Op struct {
	Kind       OpKind
	Cases      []reflect.SelectCase
	HasDefault int
	Cond       func() []int // OpCond: indexes of enabled alternatives (empty = blocked)
	Label      string

	chosen int
	paired bool
}

// Thread is a controlled goroutine.
type Thread struct {
	ID    int
	Name  string
	Env   bool // environment thread (e.g. the canceller): switching to or from it is not a preemption
	wake  chan struct{}
	op    *Op
	done  bool
	Steps int // interpreted operations executed
	Chans int // channel / lock operations executed
}

type rep struct {
	t    *Thread
	exit bool
}

// Point records one scheduling decision.
type Point struct {
	NEnabled            int    // number of alternatives
	RunningStillEnabled bool   // the thread that ran last could have continued
	AltThreads          []int  // thread id of each alternative
	AltEnv              []bool // the alternative belongs to an environment thread
	Cur                 int    // id of the thread that ran last (-1 at the start)
	CurEnv              bool
}

// Sched is one controlled execution.
type Sched struct {
	mu      sync.Mutex
	byGoid  map[int64]*Thread
	threads []*Thread
	ctl     chan rep
	closed  map[uintptr]bool
	active  bool

	prefix  []int
	Choices []int
	Points  []Point
	cur     *Thread

	aborted  bool
	Deadlock bool
	// DeadlockInfo describes what every live thread was blocked on.
	DeadlockInfo string
	Diverged     string // replay divergence or model/real disagreement (harness error, never a violation)
	CapHit       bool
	StepCap      int
	TotalSteps   int
	Switches     int
	// ThreadPanics collects panics that escaped a controlled thread (in Go they would crash the process).
	ThreadPanics []string
}

// S is the scheduler of the execution in progress (nil when none).
var S *Sched

func goid() int64 {
	var buf [64]byte
	n := runtime.Stack(buf[:], false)
	s := strings.TrimPrefix(string(buf[:n]), "goroutine ")
	id, _ := strconv.ParseInt(s[:strings.IndexByte(s, ' ')], 10, 64)
	return id
}

// New creates a scheduler that replays prefix and then always takes alternative 0.
func New(prefix []int) *Sched {
	return &Sched{byGoid: map[int64]*Thread{}, ctl: make(chan rep, 256), closed: map[uintptr]bool{}, prefix: prefix, StepCap: 200000}
}

func (s *Sched) self() *Thread {
	s.mu.Lock()
	t := s.byGoid[goid()]
	s.mu.Unlock()
	return t
}

// Current returns the controlled thread of the calling goroutine (nil if uncontrolled or no run is active).
func Current() *Thread {
	s := S
	if s == nil || !s.active {
		return nil
	}
	return s.self()
}

// Threads returns the threads created so far.
func (s *Sched) Threads() []*Thread { return s.threads }

// Done reports whether the thread has exited.
func (t *Thread) Done() bool { return t.done }

// Go starts fn as a new controlled thread when called from a controlled thread (the child is registered in
// the parent before it starts); otherwise it is a plain go statement.
func Go(fn func()) { GoNamed("", fn) }

// GoEnv starts an environment thread: its scheduling is a free choice (not counted as a preemption).
func GoEnv(name string, fn func()) {
	s := S
	if s == nil || !s.active || s.self() == nil {
		go fn()
		return
	}
	s.spawn(name, fn).Env = true
}

// GoNamed is Go with a thread name for traces.
func GoNamed(name string, fn func()) {
	s := S
	if s == nil || !s.active || s.self() == nil {
		go fn()
		return
	}
	s.spawn(name, fn)
}

func (s *Sched) spawn(name string, fn func()) *Thread {
	s.mu.Lock()
	t := &Thread{ID: len(s.threads), Name: name, wake: make(chan struct{}, 1), op: &Op{Kind: OpStart, HasDefault: -1}}
	s.threads = append(s.threads, t)
	s.mu.Unlock()
	registered := make(chan struct{})
	go func() {
		s.mu.Lock()
		s.byGoid[goid()] = t
		s.mu.Unlock()
		close(registered)
		<-t.wake
		defer func() {
			t.done = true
			if r := recover(); r != nil {
				if _, ok := r.(abortPanic); !ok && !s.aborted {
					s.mu.Lock()
					s.ThreadPanics = append(s.ThreadPanics, fmt.Sprint(r))
					s.mu.Unlock()
					if Trace != nil {
						Trace("thread panic: " + fmt.Sprint(r) + "\n" + string(debug.Stack()))
					}
				}
			}
			select {
			case s.ctl <- rep{t, true}:
			default:
			}
		}()
		fn()
	}()
	<-registered
	return t
}

type abortPanic struct{}

func (s *Sched) point(t *Thread, op *Op) {
	if s.aborted {
		panic(abortPanic{})
	}
	t.op = op
	s.ctl <- rep{t, false}
	<-t.wake
	if s.aborted {
		panic(abortPanic{})
	}
}

// Step is a scheduling point before an interpreted operation.
func Step() {
	s := S
	if s == nil || !s.active {
		return
	}
	t := s.self()
	if t == nil {
		return
	}
	t.Steps++
	s.point(t, &Op{Kind: OpStep, HasDefault: -1})
}

// Yield is an always-enabled scheduling point.
func Yield(label string) {
	if t := Current(); t != nil {
		S.point(t, &Op{Kind: OpYield, HasDefault: -1, Label: label})
	}
}

func chanKey(v reflect.Value) uintptr {
	if !v.IsValid() || v.IsNil() {
		return 0
	}
	return v.Pointer()
}

func (s *Sched) caseEnabled(t *Thread, c reflect.SelectCase) (ok bool, partners []alt) {
	k := chanKey(c.Chan)
	if k == 0 {
		return false, nil
	}
	want := reflect.SelectSend
	switch c.Dir {
	case reflect.SelectRecv:
		if s.closed[k] || c.Chan.Len() > 0 {
			return true, nil
		}
	case reflect.SelectSend:
		if s.closed[k] || c.Chan.Len() < c.Chan.Cap() {
			return true, nil
		}
		want = reflect.SelectRecv
	default:
		return false, nil
	}
	for _, p := range s.threads {
		if p == t || p.done || p.op == nil || p.op.Kind != OpChan {
			continue
		}
		for j, pc := range p.op.Cases {
			if pc.Dir == want && chanKey(pc.Chan) == k {
				partners = append(partners, alt{partner: p, pcase: j})
			}
		}
	}
	return len(partners) > 0, partners
}

type alt struct {
	t       *Thread
	c       int
	partner *Thread
	pcase   int
}

func (s *Sched) enabledAlts(t *Thread) []alt {
	if t.done || t.op == nil {
		return nil
	}
	switch t.op.Kind {
	case OpStart, OpStep, OpResume, OpYield:
		return []alt{{t: t, c: -1}}
	case OpCond:
		var r []alt
		for _, i := range t.op.Cond() {
			r = append(r, alt{t: t, c: i})
		}
		return r
	case OpChan:
		var r []alt
		for i, c := range t.op.Cases {
			if c.Dir == reflect.SelectDefault {
				continue
			}
			ok, partners := s.caseEnabled(t, c)
			if !ok {
				continue
			}
			if len(partners) == 0 {
				r = append(r, alt{t: t, c: i})
			}
			for _, p := range partners { // every pairing is a legal Go execution
				r = append(r, alt{t: t, c: i, partner: p.partner, pcase: p.pcase})
			}
		}
		if len(r) == 0 && t.op.HasDefault >= 0 {
			r = append(r, alt{t: t, c: t.op.HasDefault})
		}
		return r
	}
	return nil
}

// Run drives main (thread 0) and everything it starts until all threads are done, a deadlock, or the step cap.
func (s *Sched) Run(main func()) {
	S = s
	s.active = true
	defer func() { s.active = false }()
	s.mu.Lock()
	t0 := &Thread{ID: 0, Name: "main", wake: make(chan struct{}, 1), op: &Op{Kind: OpStart, HasDefault: -1}}
	s.threads = append(s.threads, t0)
	s.mu.Unlock()
	reg := make(chan struct{})
	go func() {
		s.mu.Lock()
		s.byGoid[goid()] = t0
		s.mu.Unlock()
		close(reg)
		<-t0.wake
		defer func() {
			t0.done = true
			if r := recover(); r != nil {
				if _, ok := r.(abortPanic); !ok && !s.aborted {
					s.mu.Lock()
					s.ThreadPanics = append(s.ThreadPanics, fmt.Sprint(r))
					s.mu.Unlock()
				}
			}
			select {
			case s.ctl <- rep{t0, true}:
			default:
			}
		}()
		main()
	}()
	<-reg
	pending := 0
	for {
		for pending > 0 {
			<-s.ctl
			pending--
		}
		var alts []alt
		var order []*Thread
		if s.cur != nil {
			order = append(order, s.cur)
		}
		for _, t := range s.threads {
			if t != s.cur && !t.Env {
				order = append(order, t)
			}
		}
		for _, t := range s.threads { // environment threads have the lowest default priority
			if t != s.cur && t.Env {
				order = append(order, t)
			}
		}
		curEnabled := false
		for _, t := range order {
			a := s.enabledAlts(t)
			if t == s.cur && len(a) > 0 {
				curEnabled = true
			}
			alts = append(alts, a...)
		}
		if len(alts) == 0 {
			for _, t := range s.threads {
				if !t.done {
					s.Deadlock = true
				}
			}
			if s.Deadlock {
				var d []string
				for _, t := range s.threads {
					if !t.done && t.op != nil {
						d = append(d, fmt.Sprintf("thread %d %s blocked at %s (kind %d, %d cases)", t.ID, t.Name, t.op.Label, t.op.Kind, len(t.op.Cases)))
					}
				}
				s.DeadlockInfo = strings.Join(d, "; ")
				s.Abandon()
			}
			return
		}
		i := len(s.Choices)
		ch := 0
		if i < len(s.prefix) {
			ch = s.prefix[i]
			if ch >= len(alts) {
				s.Diverged = fmt.Sprintf("replay divergence at point %d: choice %d of %d alternatives", i, ch, len(alts))
				s.Abandon()
				return
			}
		}
		at := make([]int, len(alts))
		ae := make([]bool, len(alts))
		for k, a := range alts {
			at[k] = a.t.ID
			ae[k] = a.t.Env
		}
		curID := -1
		if s.cur != nil {
			curID = s.cur.ID
		}
		s.Points = append(s.Points, Point{NEnabled: len(alts), RunningStillEnabled: curEnabled, AltThreads: at, AltEnv: ae, Cur: curID, CurEnv: s.cur != nil && s.cur.Env})
		s.Choices = append(s.Choices, ch)
		a := alts[ch]
		if Trace != nil {
			Trace(fmt.Sprintf("point %d: choice %d/%d -> thread %d kind %d label %q case %d partner %v (cur %d, threads %d)", i, ch, len(alts), a.t.ID, a.t.op.Kind, a.t.op.Label, a.c, a.partner != nil, curID, len(s.threads)))
		}
		s.TotalSteps++
		if s.TotalSteps > s.StepCap {
			s.CapHit = true
			s.Abandon()
			return
		}
		if s.cur != nil && a.t != s.cur {
			s.Switches++
		}
		s.cur = a.t
		op := a.t.op
		op.chosen = a.c
		op.paired = a.partner != nil
		if a.partner != nil {
			pop := a.partner.op
			pop.chosen = a.pcase
			pop.paired = true
			a.partner.wake <- struct{}{}
			pending++
		}
		a.t.wake <- struct{}{}
		pending++
	}
}

// Abandon releases every parked thread of an aborted run (deadlock, cap, divergence): each one unwinds with
// a private panic value that its top-level wrapper swallows; the interpreter state of that run is discarded
// by the caller.
func (s *Sched) Abandon() {
	s.aborted = true
	s.mu.Lock()
	ts := append([]*Thread{}, s.threads...)
	s.mu.Unlock()
	for _, t := range ts {
		if !t.done {
			select {
			case t.wake <- struct{}{}:
			default:
			}
		}
	}
}

func (s *Sched) execChan(op *Op) (int, reflect.Value, bool) {
	i := op.chosen
	c := op.Cases[i]
	if c.Dir == reflect.SelectDefault {
		return i, reflect.Value{}, false
	}
	if op.paired {
		_, v, ok := reflect.Select([]reflect.SelectCase{c})
		return i, v, ok
	}
	chosen, v, ok := reflect.Select([]reflect.SelectCase{c, {Dir: reflect.SelectDefault}})
	if chosen != 0 {
		s.Diverged = "channel model disagrees with the Go runtime: an operation reported as enabled would block"
		panic("vsched: " + s.Diverged)
	}
	return i, v, ok
}

func (s *Sched) chanOp(cases []reflect.SelectCase) (int, reflect.Value, bool) {
	t := s.self()
	if t == nil {
		return reflect.Select(cases)
	}
	op := &Op{Kind: OpChan, Cases: cases, HasDefault: -1}
	for i, c := range cases {
		if c.Dir == reflect.SelectDefault {
			op.HasDefault = i
		}
	}
	t.Chans++
	s.point(t, op)
	i, v, ok := s.execChan(op)
	if op.paired && s.cur != t {
		s.point(t, &Op{Kind: OpResume, HasDefault: -1})
	}
	return i, v, ok
}

// Select replaces reflect.Select: a scheduling point at the call boundary (the real reflect.Select reads its
// argument slice some time after the call), then the blocking descriptor.
func Select(cases []reflect.SelectCase) (int, reflect.Value, bool) {
	s := S
	if s == nil || !s.active {
		return reflect.Select(cases)
	}
	t := s.self()
	if t == nil {
		return reflect.Select(cases)
	}
	s.point(t, &Op{Kind: OpYield, HasDefault: -1, Label: "select-call"})
	cp := make([]reflect.SelectCase, len(cases))
	copy(cp, cases)
	return s.chanOp(cp)
}

// Recv replaces reflect.Value.Recv.
func Recv(ch reflect.Value) (reflect.Value, bool) {
	s := S
	if s == nil || !s.active || s.self() == nil {
		return ch.Recv()
	}
	_, v, ok := s.chanOp([]reflect.SelectCase{{Dir: reflect.SelectRecv, Chan: ch}})
	return v, ok
}

// Send replaces reflect.Value.Send.
func Send(ch, x reflect.Value) {
	s := S
	if s == nil || !s.active || s.self() == nil {
		ch.Send(x)
		return
	}
	s.chanOp([]reflect.SelectCase{{Dir: reflect.SelectSend, Chan: ch, Send: x}})
}

// TryRecv replaces reflect.Value.TryRecv.
func TryRecv(ch reflect.Value) (reflect.Value, bool) {
	s := S
	if s == nil || !s.active || s.self() == nil {
		return ch.TryRecv()
	}
	i, v, ok := s.chanOp([]reflect.SelectCase{{Dir: reflect.SelectRecv, Chan: ch}, {Dir: reflect.SelectDefault}})
	if i == 1 {
		return reflect.Value{}, false
	}
	if !ok {
		return reflect.Zero(ch.Type().Elem()), false
	}
	return v, ok
}

// TrySend replaces reflect.Value.TrySend.
func TrySend(ch, x reflect.Value) bool {
	s := S
	if s == nil || !s.active || s.self() == nil {
		return ch.TrySend(x)
	}
	i, _, _ := s.chanOp([]reflect.SelectCase{{Dir: reflect.SelectSend, Chan: ch, Send: x}, {Dir: reflect.SelectDefault}})
	return i == 0
}

// Close replaces reflect.Value.Close: the scheduler must know which channels are closed.
func Close(ch reflect.Value) {
	if s := S; s != nil && s.active {
		s.mu.Lock()
		s.closed[chanKey(ch)] = true
		s.mu.Unlock()
	}
	ch.Close()
}

// CloseChan replaces the builtin close on a channel of the interpreter (e.g. Interpreter.done).
func CloseChan(ch interface{}) { Close(reflect.ValueOf(ch)) }

// closedNow reports whether a close-only channel (never sent on) is closed.
func closedNow(ch reflect.Value) bool {
	chosen, _, ok := reflect.Select([]reflect.SelectCase{{Dir: reflect.SelectRecv, Chan: ch}, {Dir: reflect.SelectDefault}})
	return chosen == 0 && !ok
}

// WaitClosed replaces `select { case <-a: ...; case <-b: ... }` over close-only native channels
// (ctx.Done(), the done channel of an evaluation goroutine): it blocks until one of them is closed and
// returns its index; when several are closed the scheduler chooses (both outcomes are legal Go executions).
func WaitClosed(chs ...interface{}) int {
	vals := make([]reflect.Value, len(chs))
	for i, c := range chs {
		vals[i] = reflect.ValueOf(c)
	}
	ready := func() []int {
		var r []int
		for i, v := range vals {
			if v.IsValid() && !v.IsNil() && closedNow(v) {
				r = append(r, i)
			}
		}
		return r
	}
	t := Current()
	if t == nil {
		cases := make([]reflect.SelectCase, len(vals))
		for i, v := range vals {
			cases[i] = reflect.SelectCase{Dir: reflect.SelectRecv, Chan: v}
		}
		i, _, _ := reflect.Select(cases)
		return i
	}
	op := &Op{Kind: OpCond, HasDefault: -1, Cond: ready, Label: "wait-closed"}
	t.Chans++
	S.point(t, op)
	return op.chosen
}

// ---- lock shims ----

// RWMutex replaces sync.RWMutex inside the interpreter: an acquisition is a scheduling point only when it
// would block; uncontrolled goroutines use a real lock.
type RWMutex struct {
	real    sync.RWMutex
	writer  bool
	readers int
	// realW / realR count acquisitions of the real lock: an unlock that arrives from a goroutine the scheduler no
	// longer controls (a thread unwinding after an abort) releases the real lock only if it is held
	realW, realR int32
}

func one(ok bool) []int {
	if ok {
		return []int{0}
	}
	return nil
}

// Lock locks for writing.
func (m *RWMutex) Lock() {
	t := Current()
	if t == nil {
		m.real.Lock()
		atomic.AddInt32(&m.realW, 1)
		return
	}
	if m.writer || m.readers > 0 {
		t.Chans++
		S.point(t, &Op{Kind: OpCond, HasDefault: -1, Cond: func() []int { return one(!m.writer && m.readers == 0) }, Label: "lock"})
	}
	m.writer = true
}

// Unlock unlocks a write lock.
func (m *RWMutex) Unlock() {
	if Current() == nil {
		if atomic.LoadInt32(&m.realW) > 0 {
			atomic.AddInt32(&m.realW, -1)
			m.real.Unlock()
			return
		}
		m.writer = false // an aborted thread releasing a model lock while it unwinds
		return
	}
	m.writer = false
}

// RLock locks for reading.
func (m *RWMutex) RLock() {
	t := Current()
	if t == nil {
		m.real.RLock()
		atomic.AddInt32(&m.realR, 1)
		return
	}
	if m.writer {
		t.Chans++
		S.point(t, &Op{Kind: OpCond, HasDefault: -1, Cond: func() []int { return one(!m.writer) }, Label: "rlock"})
	}
	m.readers++
}

// RUnlock unlocks a read lock.
func (m *RWMutex) RUnlock() {
	if Current() == nil {
		if atomic.LoadInt32(&m.realR) > 0 {
			atomic.AddInt32(&m.realR, -1)
			m.real.RUnlock()
			return
		}
		if m.readers > 0 {
			m.readers--
		}
		return
	}
	m.readers--
}

// Mutex is the script-level replacement of sync.Mutex (every Lock is a scheduling point).
type Mutex struct {
	real   sync.Mutex
	locked bool
}

// Lock acquires the mutex.
func (m *Mutex) Lock() {
	t := Current()
	if t == nil {
		m.real.Lock()
		return
	}
	t.Chans++
	S.point(t, &Op{Kind: OpCond, HasDefault: -1, Cond: func() []int { return one(!m.locked) }, Label: "mutex"})
	m.locked = true
}

// Unlock releases the mutex.
func (m *Mutex) Unlock() {
	if Current() == nil {
		m.real.Unlock()
		return
	}
	m.locked = false
}

// WaitGroup is the script-level replacement of sync.WaitGroup.
type WaitGroup struct {
	real sync.WaitGroup
	n    int
}

// Trace, when set, receives a line per scheduler-relevant event (debugging aid).
var Trace func(string)

// Add adds delta.
func (w *WaitGroup) Add(d int) {
	t := Current()
	if Trace != nil {
		id := -1
		if t != nil {
			id = t.ID
		}
		Trace(fmt.Sprintf("wg %p Add(%d) by thread %d (n=%d)", w, d, id, w.n))
	}
	if t == nil {
		w.real.Add(d)
		return
	}
	w.n += d
}

// Done decrements the counter.
func (w *WaitGroup) Done() { w.Add(-1) }

// Wait blocks until the counter is zero.
func (w *WaitGroup) Wait() {
	t := Current()
	if t == nil {
		w.real.Wait()
		return
	}
	t.Chans++
	S.point(t, &Op{Kind: OpCond, HasDefault: -1, Cond: func() []int { return one(w.n == 0) }, Label: "waitgroup"})
}
