// Package report writes evidence files, replay files and the VIOLATION /
// KNOWN-FINDING lines of the check interface. All counters are supplied by
// the engines at run time.
package report

import (
	"crypto/sha1"
	"encoding/hex"
	"encoding/json"
	"flag"
	"fmt"
	"os"
	"path/filepath"
	"sort"
	"strconv"
	"strings"
	"sync"
	"time"
)

// Root is the /verif directory (overridable for tests).
var Root = func() string {
	if r := os.Getenv("VERIF_ROOT"); r != "" {
		return r
	}
	return "/verif"
}()

// Failure is one failing case.
type Failure struct {
	Key  string      `json:"key"`  // identity of the minimal failing shape (known-finding key)
	What string      `json:"what"` // human readable description
	Case interface{} `json:"case"` // everything needed to replay the case without the explorer
}

// Run accumulates what one check run covered.
type Run struct {
	ID          string
	Tier        string
	Seed        int64
	Level       string
	Replay      string
	Cov         map[string]interface{}
	Assumptions []string
	MaxSamples  int

	mu       sync.Mutex
	start    time.Time
	failures []Failure
	samples  []interface{}
	harness  []string
}

// Start parses the common flags and environment.
func Start(id, level string) *Run {
	r := &Run{ID: id, Level: level, Cov: map[string]interface{}{}, MaxSamples: 6, start: time.Now()}
	tier := flag.String("tier", os.Getenv("VERIF_TIER"), "quick|thorough")
	replay := flag.String("replay", "", "replay file")
	if !flag.Parsed() {
		flag.Parse()
	}
	r.Tier = *tier
	if r.Tier != "thorough" {
		r.Tier = "quick"
	}
	r.Replay = *replay
	if s := os.Getenv("VERIF_SEED"); s != "" {
		r.Seed, _ = strconv.ParseInt(s, 10, 64)
	}
	return r
}

// Thorough reports whether the thorough tier was requested.
func (r *Run) Thorough() bool { return r.Tier == "thorough" }

// Elapsed since start.
func (r *Run) Elapsed() time.Duration { return time.Since(r.start) }

// Fail records a failing case.
func (r *Run) Fail(f Failure) {
	r.mu.Lock()
	r.failures = append(r.failures, f)
	r.mu.Unlock()
}

// HarnessError records a problem of the checker itself (never a violation).
func (r *Run) HarnessError(format string, a ...interface{}) {
	r.mu.Lock()
	r.harness = append(r.harness, fmt.Sprintf(format, a...))
	r.mu.Unlock()
}

// Sample keeps a few of the explored cases for the evidence file.
func (r *Run) Sample(x interface{}) {
	r.mu.Lock()
	if len(r.samples) < r.MaxSamples {
		r.samples = append(r.samples, x)
	}
	r.mu.Unlock()
}

// Add adds n to an integer coverage counter.
func (r *Run) Add(key string, n int64) {
	r.mu.Lock()
	v, _ := r.Cov[key].(int64)
	r.Cov[key] = v + n
	r.mu.Unlock()
}

// Set sets a coverage key.
func (r *Run) Set(key string, v interface{}) {
	r.mu.Lock()
	r.Cov[key] = v
	r.mu.Unlock()
}

// Finding is an entry of known_findings.json.
type Finding struct {
	Property string `json:"property"`
	Key      string `json:"key"`
	Status   string `json:"status"` // "open" or "fixed"
	Commit   string `json:"commit,omitempty"`
	What     string `json:"what"`
}

// LoadFindings reads the committed known-findings file (never written at run time).
func LoadFindings() []Finding {
	var doc struct {
		Findings []Finding `json:"findings"`
	}
	b, err := os.ReadFile(filepath.Join(Root, "known_findings.json"))
	if err != nil {
		return nil
	}
	if err := json.Unmarshal(b, &doc); err != nil {
		fmt.Fprintln(os.Stderr, "HARNESS-ERROR: known_findings.json:", err)
		os.Exit(3)
	}
	return doc.Findings
}

// Finish writes evidence, prints verdict lines and exits.
func (r *Run) Finish() {
	known := map[string]Finding{}
	for _, f := range LoadFindings() {
		if f.Property == r.ID && f.Status == "open" {
			known[f.Key] = f
		}
	}
	byKey := map[string][]Failure{}
	var keys []string
	for _, f := range r.failures {
		if _, ok := byKey[f.Key]; !ok {
			keys = append(keys, f.Key)
		}
		byKey[f.Key] = append(byKey[f.Key], f)
	}
	sort.Strings(keys)
	violations := 0
	knownHit := 0
	var vlines []string
	for _, k := range keys {
		fs := byKey[k]
		if kf, ok := known[k]; ok {
			knownHit++
			fmt.Printf("KNOWN-FINDING: property=%s key=%q %s (%d cases)\n", r.ID, k, kf.What, len(fs))
			continue
		}
		violations++
		path := r.writeReplay(k, fs)
		if len(vlines) < 40 {
			vlines = append(vlines, fmt.Sprintf("VIOLATION property=%s replay=%s key=%q cases=%d :: %s", r.ID, path, k, len(fs), oneLine(fs[0].What)))
		}
	}
	if p := os.Getenv("VERIF_DUMP_FINDINGS"); p != "" {
		// development aid only (never set by registered commands): list all failing keys of this run for manual classification
		var fl []Finding
		for _, k := range keys {
			fl = append(fl, Finding{Property: r.ID, Key: k, Status: "open", What: oneLine(byKey[k][0].What)})
		}
		b, _ := json.MarshalIndent(map[string]interface{}{"findings": fl}, "", " ")
		os.WriteFile(p, b, 0o644)
	}
	var unseen []string
	for k := range known {
		if _, ok := byKey[k]; !ok {
			unseen = append(unseen, k)
		}
	}
	sort.Strings(unseen)
	r.Cov["failing_cases"] = len(r.failures)
	r.Cov["failing_keys"] = len(keys)
	r.Cov["known_findings_matched"] = knownHit
	r.Cov["known_findings_not_reproduced_in_this_tier"] = unseen
	if len(r.samples) > 0 {
		r.Cov["samples"] = r.samples
	}
	if len(r.harness) > 0 {
		r.Cov["harness_errors"] = r.harness
	}
	ev := map[string]interface{}{
		"property_id": r.ID,
		"tier":        r.Tier,
		"seed":        r.Seed,
		"level":       r.Level,
		"coverage":    r.Cov,
		"assumptions": r.Assumptions,
		"wall_s":      time.Since(r.start).Seconds(),
		"violations":  violations,
	}
	b, _ := json.MarshalIndent(ev, "", " ")
	os.MkdirAll(filepath.Join(Root, "evidence"), 0o755)
	if err := os.WriteFile(filepath.Join(Root, "evidence", r.ID+".json"), append(b, '\n'), 0o644); err != nil {
		fmt.Fprintln(os.Stderr, "HARNESS-ERROR: cannot write evidence:", err)
		os.Exit(3)
	}
	for _, l := range vlines {
		fmt.Println(l)
	}
	fmt.Printf("%s tier=%s wall=%.1fs failing_cases=%d keys=%d known=%d violations=%d\n", r.ID, r.Tier, time.Since(r.start).Seconds(), len(r.failures), len(keys), knownHit, violations)
	if len(r.harness) > 0 {
		for _, h := range r.harness {
			fmt.Fprintln(os.Stderr, "HARNESS-ERROR:", h)
		}
		os.Exit(3)
	}
	if violations > 0 {
		os.Exit(1)
	}
	os.Exit(0)
}

func oneLine(s string) string {
	s = strings.ReplaceAll(s, "\n", " | ")
	if len(s) > 300 {
		s = s[:300] + "…"
	}
	return s
}

func (r *Run) writeReplay(key string, fs []Failure) string {
	h := sha1.Sum([]byte(key))
	dir := filepath.Join(Root, "replays", r.ID)
	os.MkdirAll(dir, 0o755)
	path := filepath.Join(dir, hex.EncodeToString(h[:6])+".json")
	n := len(fs)
	if n > 5 {
		fs = fs[:5]
	}
	doc := map[string]interface{}{"property": r.ID, "key": key, "cases_with_this_key": n, "cases": fs,
		"how_to_replay": fmt.Sprintf("cd /verif && ./check %s --replay %s", r.ID, path)}
	b, _ := json.MarshalIndent(doc, "", " ")
	os.WriteFile(path, append(b, '\n'), 0o644)
	return path
}

// ReadReplay loads the cases of a replay file into out (a pointer to a slice of case structs).
func ReadReplay(path string, out interface{}) error {
	b, err := os.ReadFile(path)
	if err != nil {
		return err
	}
	var doc struct {
		Cases []struct {
			Case json.RawMessage `json:"case"`
		} `json:"cases"`
	}
	if err := json.Unmarshal(b, &doc); err != nil {
		return err
	}
	var raws []json.RawMessage
	for _, c := range doc.Cases {
		raws = append(raws, c.Case)
	}
	rb, _ := json.Marshal(raws)
	return json.Unmarshal(rb, out)
}
