// Package par shards an indexed case space over worker subprocesses of the
// running binary. A worker that hangs (per-case watchdog), crashes or runs out
// of memory (ulimit -v) loses only the case it was running: the parent records
// that case as hung/crashed and restarts the shard behind it.
package par

import (
	"bufio"
	"encoding/json"
	"fmt"
	"os"
	"os/exec"
	"runtime"
	"sort"
	"strconv"
	"strings"
	"sync"
	"sync/atomic"
	"time"
)

// Opts configures Map.
type Opts struct {
	Workers     int           // default: NumCPU
	CaseTimeout time.Duration // default 20s
	MemMB       int           // ulimit -v per worker in MB (default 6144; 0 = default, <0 = none)
	Name        string        // distinguishes several Map calls in one binary
	Env         []string      // extra environment for workers
	GoMaxProcs  int           // GOMAXPROCS of each worker (default 2)
}

// Abnormal describes a case that did not complete.
type Abnormal struct {
	Idx  int
	Kind string // "hang" or "crash"
	Note string // last par.Note of the worker before it was lost
	Log  string
}

// Result of Map in the parent.
type Result[T any] struct {
	Outs     map[int]T
	Abnormal []Abnormal
	Counts   map[string]int64
	Sets     map[string]map[string]bool // distinct-value sets collected by workers (bounded)
}

var (
	cmu     sync.Mutex
	counts  = map[string]int64{}
	sets    = map[string]map[string]bool{}
	current atomic.Int64
	beat    atomic.Int64
	note    atomic.Value
)

// Note records what the worker is doing (reported if the worker hangs or crashes in this case).
func Note(s string) {
	note.Store(s)
	if emitNote != nil {
		emitNote(s)
	}
}

var emitNote func(string)

// Count adds n to a named counter (summed over workers, delivered in Result.Counts).
func Count(name string, n int64) {
	cmu.Lock()
	counts[name] += n
	cmu.Unlock()
}

// Distinct records a value in a named set (unioned over workers). Sets are capped at 2M entries per worker.
func Distinct(name, val string) {
	cmu.Lock()
	s := sets[name]
	if s == nil {
		s = map[string]bool{}
		sets[name] = s
	}
	if len(s) < 2000000 {
		s[val] = true
	}
	cmu.Unlock()
}

// IsWorker reports whether this process is a par worker.
func IsWorker() bool { return os.Getenv("VERIF_PAR_WORKER") != "" }

type line struct {
	B *int                `json:"b,omitempty"`
	O json.RawMessage     `json:"o,omitempty"`
	I int                 `json:"i,omitempty"`
	H *int                `json:"h,omitempty"`
	N string              `json:"n,omitempty"`
	C map[string]int64    `json:"c,omitempty"`
	S map[string][]string `json:"s,omitempty"`
	D bool                `json:"d,omitempty"`
}

// Map evaluates f on every index in [0,n). f returns nil when there is nothing
// to report for the case. In a worker process Map never returns.
func Map[T any](n int, f func(i int) *T, o Opts) Result[T] {
	if o.Workers <= 0 {
		o.Workers = runtime.NumCPU()
	}
	if o.Workers > n {
		o.Workers = n
	}
	if o.Workers < 1 {
		o.Workers = 1
	}
	if o.CaseTimeout == 0 {
		o.CaseTimeout = 20 * time.Second
	}
	if o.MemMB == 0 {
		o.MemMB = 6144
	}
	if o.GoMaxProcs == 0 {
		o.GoMaxProcs = 2
	}
	if w := os.Getenv("VERIF_PAR_WORKER"); w != "" {
		parts := strings.Split(w, "/")
		if parts[0] == o.Name {
			if os.Getenv("VERIF_PAR_CONFIRM") != "" {
				o.CaseTimeout *= 15 // confirmation run of a single case that hit the watchdog (see Map)
			}
			shard, _ := strconv.Atoi(parts[1])
			of, _ := strconv.Atoi(parts[2])
			skip, _ := strconv.Atoi(parts[3])
			worker(n, shard, of, skip, f, o)
			os.Exit(0)
		}
		// a different Map call of the same binary: workers only serve their own
		return Result[T]{Outs: map[int]T{}, Counts: map[string]int64{}}
	}
	res := Result[T]{Outs: map[int]T{}, Counts: map[string]int64{}, Sets: map[string]map[string]bool{}}
	var mu sync.Mutex
	var wg sync.WaitGroup
	for s := 0; s < o.Workers; s++ {
		wg.Add(1)
		go func(shard int) {
			defer wg.Done()
			skip := 0
			for attempt := 0; ; attempt++ {
				next, done := runWorker(n, shard, o, skip, &mu, &res)
				if done {
					return
				}
				skip = next
			}
		}(s)
	}
	wg.Wait()
	// A case that hit the per-case watchdog is only reported as a hang after a confirmation run: the case alone in a
	// fresh worker, once every shard is done (idle machine), with 15 times the timeout. A case that was merely starved on
	// a loaded machine completes there and its result is used; a real non-termination hangs again and stays Abnormal.
	var hung []Abnormal
	kept := res.Abnormal[:0]
	for _, a := range res.Abnormal {
		if a.Kind == "hang" {
			hung = append(hung, a)
		} else {
			kept = append(kept, a)
		}
	}
	res.Abnormal = kept
	for _, a := range hung {
		oc := o
		oc.Workers = n // stride n: the worker runs index a.Idx only
		oc.Env = append(append([]string{}, o.Env...), "VERIF_PAR_CONFIRM=1")
		if _, done := runWorker(n, a.Idx, oc, 0, &mu, &res); done {
			res.Counts["watchdog_hits_not_confirmed"]++
		}
	}
	sort.Slice(res.Abnormal, func(i, j int) bool { return res.Abnormal[i].Idx < res.Abnormal[j].Idx })
	return res
}

func runWorker[T any](n, shard int, o Opts, skip int, mu *sync.Mutex, res *Result[T]) (next int, done bool) {
	exe, _ := os.Executable()
	var cmd *exec.Cmd
	if o.MemMB > 0 {
		args := append([]string{"-c", fmt.Sprintf("ulimit -v %d; exec \"$0\" \"$@\"", o.MemMB*1024), exe}, os.Args[1:]...)
		cmd = exec.Command("/bin/sh", args...)
	} else {
		cmd = exec.Command(exe, os.Args[1:]...)
	}
	cmd.Env = append(os.Environ(), fmt.Sprintf("VERIF_PAR_WORKER=%s/%d/%d/%d", o.Name, shard, o.Workers, skip), fmt.Sprintf("GOMAXPROCS=%d", o.GoMaxProcs))
	cmd.Env = append(cmd.Env, o.Env...)
	out, _ := cmd.StdoutPipe()
	var errb tailBuf
	cmd.Stderr = &errb
	if err := cmd.Start(); err != nil {
		fmt.Fprintln(os.Stderr, "HARNESS-ERROR: cannot start worker:", err)
		os.Exit(3)
	}
	rd := bufio.NewReaderSize(out, 1<<20)
	last := -1
	finished := false
	hang := -1
	lastNote := ""
	merge := func(l line) {
		mu.Lock()
		for k, v := range l.C {
			res.Counts[k] += v
		}
		for k, vs := range l.S {
			if res.Sets[k] == nil {
				res.Sets[k] = map[string]bool{}
			}
			for _, v := range vs {
				res.Sets[k][v] = true
			}
		}
		mu.Unlock()
	}
	for {
		b, err := rd.ReadBytes('\n')
		if len(b) > 0 && b[0] == '{' {
			var l line
			if json.Unmarshal(b, &l) == nil {
				switch {
				case l.B != nil:
					last = *l.B
					lastNote = ""
					merge(l)
				case l.N != "" && l.H == nil:
					lastNote = l.N
				case l.H != nil:
					hang = *l.H
					lastNote = l.N
				case l.O != nil:
					var t T
					if json.Unmarshal(l.O, &t) == nil {
						mu.Lock()
						res.Outs[l.I] = t
						mu.Unlock()
					}
				case l.D:
					finished = true
					merge(l)
				}
			}
		}
		if err != nil {
			break
		}
	}
	cmd.Wait()
	if finished {
		return 0, true
	}
	mu.Lock()
	defer mu.Unlock()
	if hang >= 0 {
		res.Abnormal = append(res.Abnormal, Abnormal{Idx: hang, Kind: "hang", Note: lastNote, Log: errb.String()})
		return hang + 1, false
	}
	if last < 0 {
		// died before the first case: harness problem
		fmt.Fprintf(os.Stderr, "HARNESS-ERROR: worker %d died before any case: %s\n", shard, errb.String())
		os.Exit(3)
	}
	res.Abnormal = append(res.Abnormal, Abnormal{Idx: last, Kind: "crash", Note: lastNote, Log: errb.String()})
	return last + 1, false
}

type tailBuf struct {
	mu sync.Mutex
	b  []byte
}

func (t *tailBuf) Write(p []byte) (int, error) {
	t.mu.Lock()
	t.b = append(t.b, p...)
	if len(t.b) > 6000 {
		t.b = t.b[len(t.b)-4000:]
	}
	t.mu.Unlock()
	return len(p), nil
}
func (t *tailBuf) String() string { t.mu.Lock(); defer t.mu.Unlock(); return string(t.b) }

func worker[T any](n, shard, of, skip int, f func(i int) *T, o Opts) {
	w := os.Stdout
	// keep the case's own prints away from the protocol stream
	devnull, _ := os.OpenFile(os.DevNull, os.O_WRONLY, 0)
	os.Stdout = devnull
	var wmu sync.Mutex
	emit := func(l line) {
		b, _ := json.Marshal(l)
		wmu.Lock()
		w.Write(append(b, '\n'))
		wmu.Unlock()
	}
	emitNote = func(s string) { emit(line{N: s}) }
	current.Store(-1)
	go func() {
		for {
			time.Sleep(100 * time.Millisecond)
			c := current.Load()
			if c >= 0 && time.Since(time.Unix(0, beat.Load())) > o.CaseTimeout {
				ci := int(c)
				nn, _ := note.Load().(string)
				emit(line{H: &ci, N: nn})
				os.Exit(3)
			}
		}
	}()
	for i := shard; i < n; i += of {
		if i < skip {
			continue
		}
		beat.Store(time.Now().UnixNano())
		current.Store(int64(i))
		ii := i
		bl := line{B: &ii}
		cmu.Lock()
		if len(counts) > 0 {
			bl.C = counts
			counts = map[string]int64{}
		}
		if len(sets) > 0 {
			bl.S = map[string][]string{}
			for k, s := range sets {
				for v := range s {
					bl.S[k] = append(bl.S[k], v)
				}
			}
			sets = map[string]map[string]bool{}
		}
		cmu.Unlock()
		emit(bl)
		if t := f(i); t != nil {
			b, _ := json.Marshal(t)
			emit(line{O: b, I: i})
		}
	}
	current.Store(-1)
	cmu.Lock()
	l := line{D: true, C: counts, S: map[string][]string{}}
	for k, s := range sets {
		for v := range s {
			l.S[k] = append(l.S[k], v)
		}
	}
	cmu.Unlock()
	emit(l)
}
