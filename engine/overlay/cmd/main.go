// Command overlay writes the scheduler build overlay for the current repository tree.
package main

import (
	"fmt"
	"os"
	"path/filepath"

	"verif/engine/overlay"
)

func main() {
	root := os.Getenv("VERIF_ROOT")
	if root == "" {
		root = "/verif"
	}
	repo := os.Getenv("VERIF_REPO")
	if repo == "" {
		repo = "/repo"
	}
	counts, err := overlay.Generate(repo, root, filepath.Join(root, "gen", "overlay"))
	if err != nil {
		fmt.Fprintln(os.Stderr, "HARNESS-ERROR: overlay:", err, counts)
		os.Exit(3)
	}
	fmt.Println("overlay sites:", counts)
}
