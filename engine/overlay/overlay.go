// Package overlay generates, from the current working tree of the repository, a build overlay that mounts the
// controlled scheduler into package interp: go statements, blocking reflect channel operations, the closing of
// the interpreter's done channel, the context/done selects of the *WithContext entry points and the two
// RWMutex fields are redirected to package vsched. The rewrite is AST based (go/types resolves which calls are
// methods of reflect.Value), so edits and seeded mutants in the rewritten files are preserved, not masked.
package overlay

import (
	"bytes"
	"encoding/json"
	"fmt"
	"go/ast"
	"go/format"
	"go/importer"
	"go/parser"
	"go/token"
	"go/types"
	"os"
	"path/filepath"
	"sort"
	"strings"
)

const vschedPath = "github.com/traefik/yaegi/vsched"

// Counts of rewritten sites per category.
type Counts map[string]int

// Generate writes the rewritten files under outDir and the overlay description to outDir/overlay.json.
func Generate(repo, verifRoot, outDir string) (Counts, error) {
	dir := filepath.Join(repo, "interp")
	fset := token.NewFileSet()
	ents, err := os.ReadDir(dir)
	if err != nil {
		return nil, err
	}
	var files []*ast.File
	var names []string
	for _, e := range ents {
		n := e.Name()
		if !strings.HasSuffix(n, ".go") || strings.HasSuffix(n, "_test.go") || n == "verif_off.go" {
			continue
		}
		f, err := parser.ParseFile(fset, filepath.Join(dir, n), nil, parser.ParseComments)
		if err != nil {
			return nil, err
		}
		files = append(files, f)
		names = append(names, n)
	}
	info := &types.Info{Types: map[ast.Expr]types.TypeAndValue{}, Selections: map[*ast.SelectorExpr]*types.Selection{}, Uses: map[*ast.Ident]types.Object{}}
	conf := types.Config{Importer: importer.ForCompiler(fset, "source", nil), Error: func(error) {}}
	conf.Check("github.com/traefik/yaegi/interp", fset, files, info)

	counts := Counts{}
	replace := map[string]string{}
	isReflectValue := func(e ast.Expr) bool {
		t := info.Types[e].Type
		return t != nil && t.String() == "reflect.Value"
	}
	vs := func(name string) ast.Expr {
		return &ast.SelectorExpr{X: ast.NewIdent("vsched"), Sel: ast.NewIdent(name)}
	}
	for fi, f := range files {
		changed := false
		var curFunc string
		var rewriteStmtList func(list []ast.Stmt) []ast.Stmt
		rewriteStmt := func(s ast.Stmt) ast.Stmt {
			switch x := s.(type) {
			case *ast.GoStmt:
				changed = true
				counts["go"]++
				if fl, ok := x.Call.Fun.(*ast.FuncLit); ok && len(x.Call.Args) == 0 {
					return &ast.ExprStmt{X: &ast.CallExpr{Fun: vs("Go"), Args: []ast.Expr{fl}}}
				}
				// evaluate the function value and the arguments in the calling goroutine, as the go statement does
				var pre []ast.Stmt
				fn := ast.NewIdent("vschedFn")
				pre = append(pre, &ast.AssignStmt{Lhs: []ast.Expr{fn}, Tok: token.DEFINE, Rhs: []ast.Expr{x.Call.Fun}})
				var args []ast.Expr
				for i, a := range x.Call.Args {
					id := ast.NewIdent(fmt.Sprintf("vschedArg%d", i))
					pre = append(pre, &ast.AssignStmt{Lhs: []ast.Expr{id}, Tok: token.DEFINE, Rhs: []ast.Expr{a}})
					args = append(args, id)
				}
				call := &ast.CallExpr{Fun: fn, Args: args, Ellipsis: x.Call.Ellipsis}
				lit := &ast.FuncLit{Type: &ast.FuncType{Params: &ast.FieldList{}}, Body: &ast.BlockStmt{List: []ast.Stmt{&ast.ExprStmt{X: call}}}}
				pre = append(pre, &ast.ExprStmt{X: &ast.CallExpr{Fun: vs("Go"), Args: []ast.Expr{lit}}})
				return &ast.BlockStmt{List: pre}
			case *ast.SelectStmt:
				if !strings.HasSuffix(curFunc, "WithContext") {
					return s
				}
				// select over close-only channels: every clause is `case <-X:` without default
				var chans []ast.Expr
				var clauses []ast.Stmt
				for i, c := range x.Body.List {
					cc := c.(*ast.CommClause)
					es, ok := cc.Comm.(*ast.ExprStmt)
					if !ok {
						return s
					}
					ue, ok := es.X.(*ast.UnaryExpr)
					if !ok || ue.Op != token.ARROW {
						return s
					}
					chans = append(chans, ue.X)
					clauses = append(clauses, &ast.CaseClause{List: []ast.Expr{&ast.BasicLit{Kind: token.INT, Value: fmt.Sprint(i)}}, Body: cc.Body})
				}
				changed = true
				counts["select-on-context"]++
				return &ast.SwitchStmt{Tag: &ast.CallExpr{Fun: vs("WaitClosed"), Args: chans}, Body: &ast.BlockStmt{List: clauses}}
			}
			return s
		}
		rewriteStmtList = func(list []ast.Stmt) []ast.Stmt {
			for i, s := range list {
				list[i] = rewriteStmt(s)
			}
			return list
		}
		ast.Inspect(f, func(n ast.Node) bool {
			switch x := n.(type) {
			case *ast.FuncDecl:
				curFunc = x.Name.Name
			case *ast.BlockStmt:
				rewriteStmtList(x.List)
			case *ast.CaseClause:
				rewriteStmtList(x.Body)
			case *ast.CommClause:
				rewriteStmtList(x.Body)
			case *ast.CallExpr:
				if sel, ok := x.Fun.(*ast.SelectorExpr); ok {
					if id, ok := sel.X.(*ast.Ident); ok && id.Name == "reflect" && sel.Sel.Name == "Select" {
						if _, isPkg := info.Uses[id].(*types.PkgName); isPkg {
							x.Fun = vs("Select")
							changed = true
							counts["reflect.Select"]++
							return true
						}
					}
					if isReflectValue(sel.X) {
						switch sel.Sel.Name {
						case "Recv", "Send", "TryRecv", "TrySend", "Close":
							x.Args = append([]ast.Expr{sel.X}, x.Args...)
							x.Fun = vs(sel.Sel.Name)
							changed = true
							counts["Value."+sel.Sel.Name]++
						}
					}
				}
				if id, ok := x.Fun.(*ast.Ident); ok && id.Name == "close" && len(x.Args) == 1 {
					if sel, ok := x.Args[0].(*ast.SelectorExpr); ok && sel.Sel.Name == "done" {
						x.Fun = vs("CloseChan")
						changed = true
						counts["close(done)"]++
					}
				}
			case *ast.Field:
				if sel, ok := x.Type.(*ast.SelectorExpr); ok {
					if id, ok := sel.X.(*ast.Ident); ok && id.Name == "sync" && sel.Sel.Name == "RWMutex" {
						x.Type = vs("RWMutex")
						changed = true
						counts["sync.RWMutex"]++
					}
				}
			}
			return true
		})
		if !changed {
			continue
		}
		// add the import
		added := false
		for _, d := range f.Decls {
			if gd, ok := d.(*ast.GenDecl); ok && gd.Tok == token.IMPORT {
				gd.Specs = append(gd.Specs, &ast.ImportSpec{Path: &ast.BasicLit{Kind: token.STRING, Value: `"` + vschedPath + `"`}})
				added = true
				break
			}
		}
		if !added {
			return nil, fmt.Errorf("%s: no import declaration", names[fi])
		}
		var buf bytes.Buffer
		if err := format.Node(&buf, fset, f); err != nil {
			return nil, fmt.Errorf("%s: %v", names[fi], err)
		}
		src := buf.Bytes()
		// a file that used package sync only for the replaced fields must not keep an unused import
		if counts["sync.RWMutex"] > 0 && names[fi] == "interp.go" && !bytes.Contains(src, []byte("sync.")) {
			src = bytes.Replace(src, []byte("\t\"sync\"\n"), nil, 1)
		}
		out := filepath.Join(outDir, "interp", names[fi])
		if err := os.MkdirAll(filepath.Dir(out), 0o755); err != nil {
			return nil, err
		}
		if prev, err := os.ReadFile(out); err != nil || !bytes.Equal(prev, src) {
			if err := os.WriteFile(out, src, 0o644); err != nil {
				return nil, err
			}
		}
		replace[filepath.Join(dir, names[fi])] = out
	}
	replace[filepath.Join(repo, "vsched", "vsched.go")] = filepath.Join(verifRoot, "engine", "vsched", "vsched.go")
	// sanity: every category the harness relies on must have been found
	for _, c := range []string{"go", "reflect.Select", "Value.Recv", "Value.Send", "Value.TryRecv", "Value.TrySend", "Value.Close", "close(done)", "select-on-context", "sync.RWMutex"} {
		if counts[c] == 0 {
			return counts, fmt.Errorf("no site of category %q found in %s: the interpreter changed in a way the scheduler interposition does not understand", c, dir)
		}
	}
	b, _ := json.MarshalIndent(map[string]interface{}{"Replace": replace}, "", " ")
	if err := os.WriteFile(filepath.Join(outDir, "overlay.json"), b, 0o644); err != nil {
		return nil, err
	}
	var keys []string
	for k := range counts {
		keys = append(keys, k)
	}
	sort.Strings(keys)
	return counts, nil
}
