// C01: bounded-exhaustive core-language programs against their compiled twins.
package main

import (
	"strings"

	"verif/engine/par"
	"verif/engine/report"
	"verif/engine/twin"
	_ "verif/gen/c01q"
)

func main() {
	r := report.Start("C01", "model_checking")
	if r.Replay != "" {
		twin.Replay(r, twin.Options{})
	}
	r.Assumptions = []string{
		"reference = the Go compiler (gc, go 1.22 loop-variable semantics) applied to the identical program text",
		"small scope: nesting depth <= 2 (3 in thorough), <= 2 payload statements per block, fixed variable pool, 3 input tuples",
	}
	twin.Rekey = rekey
	twin.RunAll(r, nil, key, twin.Options{}, par.Opts{})
	r.Set("exhaustive", true)
	r.Set("rule", "programs = control-flow contexts nested around payload statements (destination x source x form; declarations without initialiser of 1-4 names over 9 types that are accumulated into), pool shown after every statement, 3 input tuples; enumerated completely per family (a: nesting, b: statement pairs, c: triple nesting, d: loop-variable capture, e: boolean expressions over 11 operand kinds x 4 operator forms x 6 use forms re-evaluated while operand values change); non-trivial = output lines not all equal; states = distinct program outputs; transitions = Show steps")
	r.Finish()
}

// key = the program's own shape + ending pair.
func key(c twin.Case, n, i twin.Obs) string { return c.Name }

// rekey attributes a failing program to a minimal failing sub-program of the same run when there is
// one (the enumerated space is closed under dropping an outer context or a sibling statement):
//
//	a C1>C2/p  -> a C2/p, else a C1/p      b C/p1;p2 -> a C/p1, else a C/p2
//	c C1>C2>C3/p -> a C2>C3/p, a C1>C3/p ... -> single contexts
//	any of them -> a C/"_ = a" when a context of the chain fails with the empty payload
//
// A program with no failing sub-program is minimal and is its own finding.
func rekey(name, key string, failing map[string]bool) string {
	f := strings.SplitN(name, " ", 2)
	if len(f) >= 2 && f[0] == "e" && strings.Contains(name, "e.(bool)") {
		// one root cause whatever the other operand: a type assertion as operand of a short-circuit operator
		head, _, _ := strings.Cut(f[1], "/")
		return "e type-assertion-operand " + head
	}
	if len(f) >= 2 && f[0] == "e" && strings.Contains(name, "(*pb)") {
		// one root cause whatever the other operand: a pointer dereference as LEFT operand, re-pointed between evaluations
		head, _, _ := strings.Cut(f[1], "/")
		return "e deref-operand " + head
	}
	if len(f) < 2 || f[0] == "d" || f[0] == "e" {
		return name
	}
	ctxs, pay, _ := strings.Cut(f[1], "/")
	cl := strings.Split(ctxs, ">")
	// a context that misbehaves with the empty payload explains every program nested in it (innermost first)
	for k := len(cl) - 1; k >= 0; k-- {
		if c := "a " + cl[k] + "/_ = a"; failing[c] {
			return c
		}
	}
	// ... and so does a pair of nested contexts that misbehaves with the empty payload
	for k := len(cl) - 1; k >= 1; k-- {
		for j := k - 1; j >= 0; j-- {
			if c := "a " + cl[j] + ">" + cl[k] + "/_ = a"; failing[c] {
				return c
			}
		}
	}
	var cands []string
	switch f[0] {
	case "a", "c":
		// sub-shapes: drop outer contexts first (keep order), shortest first
		n := len(cl)
		if n == 1 && cl[0] != "plain" {
			cands = append(cands, "a plain/"+pay)
		}
		if n >= 2 {
			cands = append(cands, "a "+cl[n-1]+"/"+pay)
			for k := 0; k < n-1; k++ {
				cands = append(cands, "a "+cl[k]+"/"+pay)
			}
		}
		if n == 3 {
			cands = append(cands, "a "+cl[1]+">"+cl[2]+"/"+pay, "a "+cl[0]+">"+cl[2]+"/"+pay, "a "+cl[0]+">"+cl[1]+"/"+pay)
		}
	case "b":
		p1, p2, _ := strings.Cut(pay, " ;; ")
		cands = append(cands, "a "+ctxs+"/"+p1, "a "+ctxs+"/"+p2, "a plain/"+p1, "a plain/"+p2)
		if ctxs != "plain" {
			cands = append(cands, "b plain/"+pay)
		}
	}
	for _, c := range cands {
		if failing[c] {
			return rekeyOnce(c, failing)
		}
	}
	return name
}

func rekeyOnce(name string, failing map[string]bool) string {
	if r := rekey(name, name, map[string]bool{}); r != name {
		return r
	}
	// one more level: a C/p may itself reduce to a plain/p
	f := strings.SplitN(name, " ", 2)
	_, pay, _ := strings.Cut(f[1], "/")
	if failing["a plain/"+pay] {
		return "a plain/" + pay
	}
	return name
}
