// Generator for C01: bounded-exhaustive programs = contexts (control-flow
// shapes) nested around payloads (single statements = destination x source x
// form), pool shown after every statement, two input tuples per program.
package main

import (
	"flag"
	"fmt"
	"os"
	"regexp"
	"strings"

	"verif/engine/twin/emit"
)

type ctx struct{ name, tmpl string }

var ctxs = []ctx{
	{"plain", "BODY"},
	{"shadow", "{\na := a + 1\nBODY\n_ = a\n}"},
	{"ifT", "if a < b {\nBODY\n} else {\na++\n}"},
	{"ifF", "if a > b {\na++\n} else {\nBODY\n}"},
	{"ifInit", "if t := a + b; t > 3 {\nBODY\n} else if t > 100 {\nb++\n}"},
	{"for3", "for i := 0; i < 2; i++ {\nb += i\nBODY\n}"},
	{"forCond", "for k := a; k != 0 && k < 99; {\nk = (k + 50) * (k & 1)\nBODY\n}"},
	{"rangeS", "for _, v := range s[:2] {\nb += v\nBODY\n}"},
	{"rangeIdx", "for i := range s {\nif i > 1 {\nbreak\n}\nBODY\n}"},
	{"rangeInt", "for i := range 2 {\nb += i\nBODY\n}"},
	{"rangeArr", "for i, v := range r.A {\nb += i + v\nBODY\n}"},
	{"rangeStr", "for i, c := range \"hé\" {\nb += i + int(c)%7\nBODY\n}"},
	{"rangeMap", "for k, v := range map[string]int{\"u\": 1} {\nb += len(k) + v\nBODY\n}"},
	{"switchTag", "switch a % 3 {\ncase 0:\nBODY\ncase 1:\na++\nfallthrough\ndefault:\nBODY\n}"},
	{"switchNoTag", "switch {\ncase a > b:\na--\ncase a == b:\nb++\ndefault:\nBODY\n}"},
	{"switchDefFirst", "switch x := a & 1; x {\ndefault:\nb += x\ncase 0:\nBODY\ncase 1:\nBODY\n}"},
	{"labelCont", "outer:\nfor i := 0; i < 2; i++ {\nfor j := 0; j < 2; j++ {\nif j == 1 {\ncontinue outer\n}\nBODY\n}\n}"},
	{"labelBreak", "outer:\nfor i := 0; i < 3; i++ {\nfor j := 0; j < 2; j++ {\nif i == 1 {\nbreak outer\n}\nBODY\n}\n}"},
	{"gotoBack", "{\ni := 0\nloop:\nif i < 2 {\n{\nBODY\n}\ni++\ngoto loop\n}\n}"},
	{"gotoFwd", "if a > 100 {\ngoto skip\n}\n{\nBODY\n}\nskip:\nb++"},
	{"closureCall", "func() {\nBODY\n}()"},
	{"closureStored", "{\nf := func() {\nBODY\n}\nf()\nf()\n}"},
	{"closureArg", "func(a int) {\nBODY\n_ = a\n}(b)"},
	{"capture", "{\nvar fl []func() int\nfor i := 0; i < 2; i++ {\nfl = append(fl, func() int {\nBODY\nreturn a + i\n})\n}\nfor _, f := range fl {\nb += f()\n}\n}"},
	{"deferred", "func() {\ndefer func() {\nBODY\n}()\na++\n}()"},
	{"named", "b += func() (res int) {\ndefer func() {\nres += a\n}()\nBODY\nreturn b\n}()"},
	// second generation (index >= nOld): range over the live variable itself, switch forms with several expressions per
	// case / init + side-effecting tag, shadowing of a loop variable in its own body, per-iteration locals captured by
	// pointer and closure, named results returned swapped / read while the call is in flight
	{"rangeSV", "{\nn := 0\nfor i, v := range s {\nn++\nif n > 5 {\nbreak\n}\nb += i + v\nBODY\n}\n}"},
	{"rangeSVval", "{\nn := 0\nfor _, v := range s {\nn++\nif n > 5 {\nbreak\n}\nb += v\nBODY\n}\n}"},
	{"rangeField", "{\nn := 0\nfor i, v := range r.S {\nn++\nif n > 5 {\nbreak\n}\nb += i + v\nBODY\n}\n}"},
	{"rangeArrVar", "for i, v := range ar {\nb += i + v\nBODY\n}"},
	{"rangePtrArr", "for i, v := range &ar {\nb += i + v\nBODY\n}"},
	{"rangeStrKey", "for i := range \"hé!\" {\nb += i\nBODY\n}"},
	{"shadowLoopVar", "for i := 0; i < 2; i++ {\ni := i * 10\nb += i\nBODY\n}"},
	{"switchNoTagMulti", "switch {\ncase a > 100, a < b:\nBODY\ncase a == b, a == b+4:\nb++\ndefault:\na--\n}"},
	{"switchInitCall", "switch x := a & 1; inc(&b) % 2 {\ncase 0:\nb += x\ncase 1:\nBODY\n}"},
	{"switchTagMulti", "switch a % 4 {\ncase 0, 3:\nBODY\ncase 1, 2:\nb++\n}"},
	// third generation: fallthrough into a case whose test does not hold / out of a default that is not last, range over a
	// string with invalid UTF-8
	{"switchFallCase", "switch a % 3 {\ncase 0:\nb++\nfallthrough\ncase 1:\nBODY\ncase 2:\nb += 2\nfallthrough\ncase 7:\na++\ndefault:\nb--\n}"},
	{"switchDefMiddleFall", "switch a % 4 {\ncase 0:\nb++\ndefault:\nBODY\nfallthrough\ncase 1:\na++\n}"},
	{"switchFallChain", "switch {\ncase a > b:\na--\nfallthrough\ncase a > 100:\nb += 3\nfallthrough\ncase a < -100:\nBODY\ndefault:\nb -= 2\n}"},
	{"rangeStrBad", "for i, c := range \"a\\xffb\" {\nb += i + int(c)%5\nBODY\n}"},
	{"captureLocal", "{\nvar ps []*[2]int\nvar fl []func() int\nfor i := 0; i < 2; i++ {\nloc := [2]int{i, a}\nsl := []int{i}\nps = append(ps, &loc)\nfl = append(fl, func() int { return sl[0] + loc[0] })\nBODY\n}\nfor k, pp := range ps {\nb += pp[0] + fl[k]()\n}\n}"},
	{"namedSwap", "a, b = func() (nx, ny int) {\nnx, ny = a, b\nBODY\nreturn ny, nx\n}()"},
	{"resultAlias", "a = func() (res int) {\nres = 50\nb += a\nBODY\nreturn res + 1\n}()"},
}

// nOld is the number of first-generation contexts; the triple-nesting family is complete over those and adds the
// second-generation contexts as outermost context only.
const nOld = 26

type pay struct {
	text  string
	decls string // names the payload declares in its block
	core  bool   // member of the reduced class set
}

var pays []pay

func init() {
	dests := []string{"a", "g", "r.N", "s[0]", "*p", "m[\"k\"]", "r.A[1]", "r.S[1]", "q.N", "ar[1]"}
	srcs := []string{"7", "b", "b*2 + 1", "two(b)", "s[1]", "int(int8(b * 50))", "len(s)", "func() int { return b * 2 }()", "r.A[b&1]", "m[\"z\"]", "*p + 1"}
	for i, d := range dests {
		for j, s := range srcs {
			pays = append(pays, pay{text: d + " = " + s, core: j == 1 || (i == 0 && j == 3)})
		}
		pays = append(pays, pay{text: d + " += b", core: i%2 == 0})
		pays = append(pays, pay{text: d + " -= two(a)"})
		pays = append(pays, pay{text: d + "++", core: i == 3})
		pays = append(pays, pay{text: d + ", b = pair(a)", core: i == 2})
		pays = append(pays, pay{text: d + ", a = a, " + d})
	}
	more := []pay{
		{"a, b = b, a", "", true}, {"s[0], s[1] = s[1], s[0]", "", true}, {"a, s[0] = s[0], a", "", false},
		{"x := a * 2\nb = x", "x", true}, {"var y int = a\nb += y", "y", false}, {"var z, w = pair(b)\na = z - w", "z w", false},
		{"x, y := pair(a)\nb = x * y", "x y", true}, {"x, a := b, a+1\nb = x", "x", false},
		{"s = append(s, a)", "", true}, {"s = append(s[:1], b, a)", "", false}, {"r.S = append(r.S, a)", "", false},
		{"r = R{N: a}", "", true}, {"r = R{a, [2]int{b, a}, nil}", "", false}, {"r.A = [2]int{a, b}", "", true},
		{"r2 := r\nr2.A[0] = 9\nb = r.A[0] + r2.A[0]", "r2", true}, {"t := r\nt.S[0] = a\nb = r.S[0]", "t", false},
		{"ar2 := ar\nar2[0] = a\nb = ar[0] + ar2[0]", "ar2", false},
		{"m[\"k\"] += b", "", false}, {"m[\"z\"]++", "", true}, {"v, ok := m[\"q\"]\nif !ok {\na = v + 7\n}", "v ok", true}, {"delete(m, \"k\")", "", false},
		{"m = map[string]int{\"n\": a}", "", false}, {"if _, ok := m[\"k\"]; ok {\nb++\n}", "", false},
		{"p = &b", "", true}, {"p = &r.N\n*p = 8", "", false}, {"p = &s[0]\n*p = 8", "", true}, {"p = &ar[1]\n*p += a", "", false}, {"p = new(int)\n*p = a", "", false},
		{"a = inc(&b)", "", true}, {"a = inc(p)", "", false}, {"a = s[(a&3)%len(s)]", "", false}, {"a = two(a) + two(b)", "", true},
		{"r.N, r.A[0] = pair(b)", "", false}, {"a = -a + b*3 - (a >> 1)", "", false}, {"b = a / 2 % 3", "", false}, {"a = s[0] + r.S[1] + m[\"k\"]", "", false},
		{"s = s[1:]", "", true}, {"s = s[:1]", "", false}, {"copy(s, r.S)", "", false}, {"s = []int{b, a}", "", false},
		{"q = &R{N: b}", "", true}, {"q.A[1]++", "", false}, {"*q = r", "", false}, {"q = &r\nq.N = a", "", true},
		{"fs = append(fs, func() int { return a })\nb = fs[len(fs)-1]()", "", true}, {"h := func(x int) int { return x + a }\na = h(b)", "h", false},
		{"var e interface{} = a\nif n, ok := e.(int); ok {\nb = n\n}", "e", false}, {"st := \"ab\"\nst += \"c\"\nb = len(st) + int(st[a&1])", "st", false},
		{"fl := float64(a) / 2\nb = int(fl * 3)", "fl", false}, {"bo := a > b || b == 5\nif bo && a != 0 {\na++\n}", "bo", false},
		{"a = sum(a, b, 1)", "", false}, {"a = sum(s...)", "", true}, {"a = r.get() + q.get()", "", false}, {"r.set(b)", "", true}, {"q.set(a)", "", false},
		{"const c = 3\na = c << 2", "c", false}, {"type T struct{ v int }\ntv := T{a}\nb = tv.v", "T tv", false},
		// second generation: composite literals that read their own destination, parallel assignment order,
		// append onto a prefix of its own arguments, method values bound to a copy, results aliasing the destination
		{"ar = [2]int{ar[1], ar[0]}", "", true}, {"r.A = [2]int{r.A[1], r.A[0]}", "", false}, {"r = R{N: r.A[0], A: [2]int{r.N, r.A[1]}, S: r.S}", "", false},
		{"s = []int{s[2], s[1], s[0]}", "", false}, {"r, *q = R{N: q.N}, R{N: r.N}", "", false},
		{"a, s[a&1] = b & 1, 9", "", true}, {"a, ar[a&1] = b & 1, a", "", false}, {"g, m[\"k\"] = m[\"k\"], g", "", false},
		{"s = append(s[:0], s[1], s[0])", "", true}, {"s = append(s[:1], s...)", "", false},
		{"mv := r.get\nr.N = 40\nb = mv()", "mv", true}, {"ms := q.set\nq = &R{}\nms(a)", "ms", false},
		{"ar = func() (res [2]int) {\nres[0] = ar[1]\nres[1] = ar[0]\nreturn\n}()", "", false},
		{"r = func() (res R) {\nres.N = r.N + 1\nres.A[0] = r.A[1]\nreturn\n}()", "", false},
		{"pa := [2]R{{N: 1}, {N: 2}}\nfor i, v := range pa {\npa[1].N = a + i\nb += v.N\n}", "pa", false},
		{"a, b = func() (x, y int) {\nx, y = a, b\nreturn y, x\n}()", "", true},
		// third generation: := with a composite literal first and a plain value second, parallel assignment through calls
		{"c2, k2 := R{N: a}, b\nb = c2.N + k2", "c2 k2", true}, {"a, b = two(b), two(a)", "", true}, {"a, b = b, two(a)", "", false},
		{"r, b = R{N: b}, r.N", "", false}, {"a, b = func() (x, y int) {\nx, y = a, b\nreturn x + y, x - y\n}()", "", false},
		// fourth generation: declarations WITHOUT initialiser (1 to 4 names, scalar / string / struct / array / slice / pointer
		// / map / func types) whose variables are accumulated into: each execution of the declaration (loop bodies, backward
		// goto, closures called twice) must start again from the zero value
		{"var u1 int\nu1 += a\nb += u1", "u1", false},
		{"var u1, u2 int\nu2 += a\nu1++\nb += u1 + u2*2", "u1 u2", false},
		{"var u1, u2, u3 int\nu3 += a\nu1++\nu2 += 2\nb += u1 + u2*2 + u3*3", "u1 u2 u3", true},
		{"var u1, u2, u3, u4 int\nu4 += b\nu2 -= a\nu1++\nu3 += u4\na = u1 + u2 + u3 + u4", "u1 u2 u3 u4", false},
		{"var su, sv, sw string\nsw += \"x\"\nsu += sw\nb += len(su) + len(sv)*10 + len(sw)*100", "su sv sw", false},
		{"var ra, rb, rc R\nrc.N += a\nrb.A[1]++\nra.S = append(ra.S, b)\nb += ra.N + rb.A[1]*2 + rc.N*3 + len(ra.S)", "ra rb rc", false},
		{"var aa, ab, ac [2]int\nac[0] += a\nab[1]++\naa[0] += ab[1]\nb += aa[0] + ab[1]*2 + ac[0]*3", "aa ab ac", false},
		{"var sa, sb, sc []int\nsc = append(sc, a)\nsa = append(sa, len(sc))\nb += len(sa) + len(sb)*10 + len(sc)*100 + sa[0]", "sa sb sc", false},
		{"var pa, pb, pc *int\nif pc == nil {\npc = &a\nb++\n}\nif pa == nil && pb == nil {\npa = pc\nb += 2\n}", "pa pb pc", false},
		{"var ma, mb, mc map[string]int\nif mc == nil {\nmc = map[string]int{\"x\": a}\nb++\n}\nb += len(ma) + len(mb) + mc[\"x\"]", "ma mb mc", false},
		{"var fa, fb, fc func() int\nif fc == nil {\nfc = func() int { return a }\nb++\n}\nif fa == nil && fb == nil {\nb += fc()\n}", "fa fb fc", false},
		{"var ia, ib, ic interface{}\nif ic == nil {\nic = a\nb++\n}\nif ia == nil && ib == nil {\nb += ic.(int)\n}", "ia ib ic", false},
		{"var (\nu1, u2 int\nu3 string\n)\nu3 += \"y\"\nu2 += a\nu1++\nb += u1 + u2 + len(u3)", "u1 u2 u3", false},
		{"var u1, u2, u3 int = a, b, 0\nu3 += u1\nb += u2 + u3", "u1 u2 u3", false},
		// the empty payload: a program "a C/_ = a" fails exactly when the context C alone misbehaves
		{"_ = a", "", true},
	}
	pays = append(pays, more...)
}

const decls = `type R struct {
	N int
	A [2]int
	S []int
}

func (r R) get() int { return r.N + r.A[0] }

func (r *R) set(v int) { r.N = v; r.A[1] = v + 1 }

var g int

func two(x int) int { return x*2 + 1 }

func pair(x int) (int, int) { return x + 1, x - 1 }

func inc(q *int) int { *q++; return *q }

func sum(xs ...int) int {
	t := 0
	for _, x := range xs {
		t += x
	}
	return t
}
`
const header = "s := []int{1, 2, 3}\nr := R{N: 1, A: [2]int{4, 5}, S: []int{6, 7}}\nm := map[string]int{\"k\": 1}\np := &a\nq := &R{N: 2}\nar := [2]int{8, 9}\nvar fs []func() int\ng = 2\n"
const show = "Show(a, b, s, r, m, *p, *q, ar, len(fs), g)"

var cnt int
var reOuter = regexp.MustCompile(`\bouter\b`)
var reLoop = regexp.MustCompile(`\bloop\b`)
var reSkip = regexp.MustCompile(`\bskip\b`)

// subst nests body into the context template; labels are made unique per instantiation.
func subst(c ctx, body func() string) string {
	cnt++
	t := c.tmpl
	t = reOuter.ReplaceAllString(t, fmt.Sprintf("outer%d", cnt))
	t = reLoop.ReplaceAllString(t, fmt.Sprintf("loop%d", cnt))
	t = reSkip.ReplaceAllString(t, fmt.Sprintf("skip%d", cnt))
	parts := strings.Split(t, "BODY")
	out := parts[0]
	for _, p := range parts[1:] {
		out += body() + p
	}
	return out
}

func pn(i int) string { return strings.ReplaceAll(pays[i].text, "\n", "; ") }

func lit(s string) func() string { return func() string { return s } }

func withShow(p pay) string {
	var b strings.Builder
	for _, l := range strings.Split(p.text, "\n") {
		b.WriteString(l + "\n")
	}
	b.WriteString(show)
	return b.String()
}

var progs, progsT []emit.Src

// extra routes the programs added while it is true into the thorough-only package.
var extra bool

func addProg(name, body string) {
	text := "package main\n\nimport . \"verif/engine/twin/h\"\n\n" + decls + "\nfunc run(a, b int) {\n" + header + body + "\n" + show + "\n}\n\nfunc main() {\nrun(3, 5)\nrun(6, 2)\nrun(4, 4)\n}\n"
	if extra {
		progsT = append(progsT, emit.Src{Name: name, Text: text})
		return
	}
	progs = append(progs, emit.Src{Name: name, Text: text})
}

func clash(p1, p2 pay) bool {
	for _, a := range strings.Fields(p1.decls) {
		for _, b := range strings.Fields(p2.decls) {
			if a == b {
				return true
			}
		}
	}
	return false
}

func main() {
	tier := flag.String("tier", "quick", "")
	flag.Parse()
	thorough := *tier == "thorough"
	rep := map[string]bool{"plain": true, "for3": true, "rangeS": true, "switchTag": true, "closureStored": true, "labelCont": true, "deferred": true, "gotoBack": true, "rangeSV": true, "namedSwap": true}
	// (a) nesting C1[C2[p]]: core payloads under all context pairs; every payload under every single
	// context; thorough: every payload under all pairs whose outer context is a representative
	for _, c1 := range ctxs {
		for pi, p := range pays {
			addProg(fmt.Sprintf("a %s/%s", c1.name, pn(pi)), subst(c1, lit(withShow(p))))
		}
		for _, c2 := range ctxs {
			for pi, p := range pays {
				if !(p.core || (thorough && rep[c1.name])) {
					continue
				}
				extra = !p.core
				inner := func() string { return "{\n" + subst(c2, lit(withShow(p))) + "\n}\n" + show }
				addProg(fmt.Sprintf("a %s>%s/%s", c1.name, c2.name, pn(pi)), subst(c1, inner))
				extra = false
			}
		}
	}
	na := len(progs) + len(progsT)
	// (d) loop-variable capture: every loop form x call site of the captured closures
	loops := []struct{ name, open string }{
		{"for3", "for i := 0; i < 3; i++ {"}, {"for3mod", "for i := 0; i < 3; i++ {\nif i == 1 {\ni++\n}"}, {"rangeS", "for i, v := range s {\ni += v"},
		{"rangeInt", "for i := range 3 {"}, {"rangeArr", "for i, v := range ar {\ni += v"}, {"rangeStr", "for i, c := range \"abc\" {\ni += int(c) % 5"},
	}
	sites := []struct{ name, make, use string }{
		{"afterLoop", "fl = append(fl, func() int { return i*10 + a })", "for _, f := range fl {\nb += f()\nSHOW\n}"},
		{"inLoop", "fl = append(fl, func() int { i++; return i })\nb += fl[len(fl)-1]()\nSHOW", "for _, f := range fl {\nb += f()\nSHOW\n}"},
		{"deferred", "defer func() { b += i; SHOW }()", ""},
		{"ptr", "ps = append(ps, &i)", "for _, x := range ps {\n*x += 1\nb += *x\nSHOW\n}"},
		{"nested", "for j := 0; j < 2; j++ {\nfl = append(fl, func() int { return i*10 + j })\n}", "for _, f := range fl {\nb += f()\nSHOW\n}"},
		{"mutAfterCapture", "fl = append(fl, func() int { return i })\ni += 0\na += i", "for _, f := range fl {\nb += f()\nSHOW\n}"},
	}
	for _, l := range loops {
		for _, s := range sites {
			body := "var fl []func() int\nvar ps []*int\n_, _ = fl, ps\nfunc() {\n" + l.open + "\n" + s.make + "\n}\n" + s.use + "\n}()"
			body = strings.ReplaceAll(body, "SHOW", show)
			addProg(fmt.Sprintf("d %s/%s", l.name, s.name), body)
		}
	}
	nd := len(progs) + len(progsT) - na
	// (b) C[p1;p2]: core x core pairs (quick: representative contexts, thorough: all contexts);
	// thorough adds every pair of payloads in the plain context
	for _, c := range ctxs {
		for i, p1 := range pays {
			for j, p2 := range pays {
				if p1.text == "_ = a" || p2.text == "_ = a" {
					continue
				}
				corePair := p1.core && p2.core && (thorough || rep[c.name])
				if !(corePair || (thorough && c.name == "plain")) {
					continue
				}
				extra = !(p1.core && p2.core && rep[c.name])
				b2 := withShow(p2)
				if clash(p1, p2) {
					b2 = "{\n" + b2 + "\n}"
				}
				addProg(fmt.Sprintf("b %s/%s ;; %s", c.name, pn(i), pn(j)), subst(c, lit(withShow(p1)+"\n"+b2)))
				extra = false
			}
		}
	}
	nb := len(progs) + len(progsT) - na - nd
	// (c) triple nesting (thorough): all context triples for two payloads
	nc := 0
	if thorough {
		extra = true
		var reps []int
		for i, p := range pays {
			if p.core && strings.Contains(p.text, "pair") || strings.Contains(p.text, "r = R{N: a}") {
				reps = append(reps, i)
			}
		}
		reps = reps[:2]
		for i1, c1 := range ctxs {
			for i2, c2 := range ctxs {
				for i3, c3 := range ctxs {
					if i2 >= nOld || i3 >= nOld || (i1 >= nOld && !(rep[c2.name] && rep[c3.name])) {
						continue
					}
					for _, pi := range reps {
						in2 := func() string {
							in3 := func() string { return "{\n" + subst(c3, lit(withShow(pays[pi]))) + "\n}\n" + show }
							return "{\n" + subst(c2, in3) + "\n}\n" + show
						}
						addProg(fmt.Sprintf("c %s>%s>%s/%s", c1.name, c2.name, c3.name, pn(pi)), subst(c1, in2))
						nc++
					}
				}
			}
		}
	}
	// (e) boolean expressions: operand kinds x operators x use forms, evaluated repeatedly in one activation while the
	// truth values of the operands change (short-circuit code re-reads operand slots: a stale slot shows only on re-evaluation)
	operands := []string{"a > i", "bv", "*pb", "mb[ks[i]]", "odd(i)", "t.B", "bs[i%2]", "e.(bool)", "!mb[ks[i]]", "i%2 == 0", "len(ks[i]) > 0 && mb[ks[i]]"}
	ne := 0
	boolProg := func(name, expr string, use int) {
		var u string
		switch use {
		case 0:
			u = "if " + expr + " {\nn += 10\n} else {\nn++\n}"
		case 1:
			u = "ok := " + expr + "\nif ok {\nn += 10\n}"
		case 2:
			u = "for j := 0; (" + expr + ") && j < 2; j++ {\nn += 10\n}"
		case 3:
			u = "switch {\ncase " + expr + ":\nn += 10\ndefault:\nn++\n}"
		case 4:
			u = "if func() bool { return " + expr + " }() {\nn += 10\n}"
		case 5:
			u = "n += btoi(" + expr + ")"
		}
		body := "mb := map[string]bool{\"x\": true, \"w\": false}\nks := []string{\"x\", \"y\", \"x\", \"w\"}\nbs := []bool{true, false}\nbv := a > 3\npb := &bs[0]\nvar e interface{} = b > 3\nt := struct{ B bool }{a%2 == 0}\nn := 0\nfor i := 0; i < 4; i++ {\nif i == 2 {\npb = &bs[1]\ndelete(mb, \"x\")\nt.B = !t.B\nbv = !bv\nif e.(bool) {\ne = false\n} else {\ne = true\n}\n}\n" + u + "\nShow(i, n, len(mb), bv, t.B)\n}\n_, _, _, _, _, _, _ = mb, ks, bs, bv, e, t, pb"
		text := "package main\n\nimport . \"verif/engine/twin/h\"\n\nfunc odd(x int) bool { return x%2 == 1 }\n\nfunc btoi(b bool) int {\nif b {\nreturn 1\n}\nreturn 0\n}\n\nfunc run(a, b int) {\n" + body + "\n}\n\nfunc main() {\nrun(3, 5)\nrun(6, 2)\n}\n"
		progs = append(progs, emit.Src{Name: name, Text: text})
		ne++
	}
	for xi, x := range operands {
		for yi, y := range operands {
			for oi, tmpl := range []string{"X && Y", "X || Y", "!(X && Y)", "X && !Y"} {
				expr := strings.NewReplacer("X", "("+x+")", "Y", "("+y+")").Replace(tmpl)
				for use := 0; use < 6; use++ {
					if !thorough && use >= 3 && (xi+yi+oi)%3 != 0 {
						continue
					}
					boolProg(fmt.Sprintf("e %s use=%d/%s", tmpl, use, strings.ReplaceAll(expr, "/", "÷")), expr, use)
				}
			}
		}
	}
	emitAll := func(out, pkg string, ps []emit.Src, shards int) int {
		res, err := emit.Package(out, pkg, ps, shards)
		if err != nil {
			fmt.Fprintln(os.Stderr, "HARNESS-ERROR:", err)
			os.Exit(3)
		}
		for i, r := range res.Rejected {
			if i < 15 {
				fmt.Fprintln(os.Stderr, "rejected:", r)
			}
		}
		if len(res.Rejected) > 0 {
			fmt.Fprintf(os.Stderr, "HARNESS-ERROR: %d generated programs rejected by go/types\n", len(res.Rejected))
			os.Exit(3)
		}
		return res.Emitted
	}
	nq := emitAll(emit.Root()+"/gen/c01q", "c01q", progs, 256)
	nt := 0
	if thorough {
		nt = emitAll(emit.Root()+"/gen/c01t", "c01t", progsT, 512)
	}
	fmt.Printf("c01 gen tier=%s: contexts=%d payloads=%d programs quick=%d thorough-extra=%d (a=%d b=%d c=%d d=%d e=%d)\n", *tier, len(ctxs), len(pays), nq, nt, na, nb, nc, nd, ne)
}
