// Generator for C02: the finite cross product operator x kind x operand form x
// result context, one program per combination, cells = boundary-value table.
package main

import (
	"fmt"
	"math/big"
	"os"
	"strings"

	"verif/engine/twin/emit"
)

type kind struct {
	name   string
	bits   int
	signed bool
	class  string // int, float, complex, string, bool
}

var ints = []kind{
	{"int8", 8, true, "int"}, {"int16", 16, true, "int"}, {"int32", 32, true, "int"}, {"int64", 64, true, "int"}, {"int", 64, true, "int"},
	{"uint8", 8, false, "int"}, {"uint16", 16, false, "int"}, {"uint32", 32, false, "int"}, {"uint64", 64, false, "int"}, {"uint", 64, false, "int"}, {"uintptr", 64, false, "int"},
}
var floats = []kind{{"float32", 32, true, "float"}, {"float64", 64, true, "float"}}
var complexes = []kind{{"complex64", 64, true, "complex"}, {"complex128", 128, true, "complex"}}

func pow2(n int) *big.Int { return new(big.Int).Lsh(big.NewInt(1), uint(n)) }

func ivals(k kind) []string {
	var v []*big.Int
	add := func(x *big.Int) {
		for _, y := range v {
			if y.Cmp(x) == 0 {
				return
			}
		}
		v = append(v, x)
	}
	b := func(i int64) *big.Int { return big.NewInt(i) }
	sub := func(x *big.Int, i int64) *big.Int { return new(big.Int).Sub(x, b(i)) }
	if k.signed {
		mn := new(big.Int).Neg(pow2(k.bits - 1))
		mx := sub(pow2(k.bits-1), 1)
		for _, x := range []*big.Int{mn, sub(mn, -1), b(-2), b(-1), b(0), b(1), b(2), b(3), b(7), sub(mx, 1), mx, pow2(k.bits - 2), sub(new(big.Int).Neg(pow2(k.bits-2)), -1)} {
			add(x)
		}
	} else {
		mx := sub(pow2(k.bits), 1)
		for _, x := range []*big.Int{b(0), b(1), b(2), b(3), b(7), sub(mx, 1), mx, pow2(k.bits - 1), sub(pow2(k.bits-1), 1), sub(pow2(k.bits-1), -1)} {
			add(x)
		}
	}
	var s []string
	for _, x := range v {
		s = append(s, x.String())
	}
	return s
}

func fvals(k kind) (lits []string, extra string) {
	if k.name == "float32" {
		lits = []string{"0", "1", "-1", "0.5", "0.1", "2.5", "-7.75", "1e10", "-1e-10", "3.4e38", "1e-45", "16777216", "16777217",
			// within half a float64 ulp above a float32 rounding midpoint: one rounding goes up, two roundings (via float64) go down
			"1.00000005960464478", "-1.00000005960464478", "0.50000002980232239", "16777217.0000000001"}
	} else {
		lits = []string{"0", "1", "-1", "0.5", "0.1", "2.5", "-7.75", "1e10", "-1e-10", "1.7e308", "5e-324", "9007199254740992", "9007199254740993"}
	}
	// NaN, +-Inf and -0 cannot be spelled as constants: appended at run time
	extra = "zero := " + k.name + "(0)\nvals = append(vals, 1/zero, -1/zero, zero/zero, -zero)\n"
	return
}

type prog struct{ name, text string }

var progs []emit.Src

const head = "package main\n\nimport . \"verif/engine/twin/h\"\n\n"

func add(name string, decls, body string) {
	progs = append(progs, emit.Src{Name: name, Text: head + decls + "func main() {\n" + body + "}\n"})
}

// operand describes how one operand is spelled.
type operand struct {
	form string   // v, l, c, u
	vals []string // literal values when form != v
}

func lit(k kind, v string) string {
	if strings.HasPrefix(v, "-") {
		return "(" + v + ")"
	}
	return v
}

const guardOpen = "defer func() {\nif recover() != nil {\nShow(\"P\")\n}\n}()\n"

// binary emits all programs for one binary operator on one kind.
// rkind: result kind name ("bool" for comparisons).
func binary(k kind, table string, pre string, op string, rk string, litvals []string, panicky bool, ctxs []string, leftForms, rightForms []string) {
	for _, lf := range leftForms {
		for _, rf := range rightForms {
			if lf != "v" && rf != "v" {
				continue
			}
			for _, ctx := range ctxs {
				if strings.HasPrefix(ctx, "compound") && lf != "v" {
					continue
				}
				var decls, body strings.Builder
				body.WriteString("vals := " + table + "\n" + pre)
				nfun := 0
				// spelled returns the spelling of a non-variable operand number i
				spelled := func(form string, i int, v string) string {
					switch form {
					case "l":
						return lit(k, v)
					case "c":
						n := fmt.Sprintf("cT%d", i)
						fmt.Fprintf(&decls, "const %s %s = %s\n", n, k.name, v)
						return n
					case "u":
						n := fmt.Sprintf("cU%d", i)
						fmt.Fprintf(&decls, "const %s = %s\n", n, v)
						return n
					}
					panic(form)
				}
				cell := func(X, Y string, xs, ys bool) string { // xs/ys: operand is the loop variable
					var params, args []string
					if xs {
						params, args = append(params, "x "+k.name), append(args, "x")
					}
					if ys {
						params, args = append(params, "y "+k.name), append(args, "y")
					}
					var core string
					switch ctx {
					case "assign":
						core = "r := " + X + " " + op + " " + Y + "\nShow(r)\n"
					case "arg":
						core = "Show(" + X + " " + op + " " + Y + ")\n"
					case "iface":
						core = "var e interface{}\ne = " + X + " " + op + " " + Y + "\nShow(e)\n"
					case "cond":
						core = "if " + X + " " + op + " " + Y + " {\nShow(1)\n} else {\nShow(0)\n}\n"
					case "return":
						fn := fmt.Sprintf("f%d", nfun)
						nfun++
						fmt.Fprintf(&decls, "func %s(%s) %s {\nreturn %s %s %s\n}\n", fn, strings.Join(params, ", "), rk, X, op, Y)
						core = "Show(" + fn + "(" + strings.Join(args, ", ") + "))\n"
					case "compound":
						core = "r := " + X + "\nr " + op + "= " + Y + "\nShow(r)\n"
					case "compoundfield":
						core = "var st struct{ A, F " + k.name + " }\nst.F = " + X + "\nst.F " + op + "= " + Y + "\nShow(st.F, st.A)\n"
					case "compoundelem":
						core = "sl := make([]" + k.name + ", 2)\nsl[1] = " + X + "\nsl[1] " + op + "= " + Y + "\nShow(sl[1], sl[0])\n"
					default:
						panic(ctx)
					}
					if panicky {
						return "func(" + strings.Join(params, ", ") + ") {\n" + guardOpen + core + "}(" + strings.Join(args, ", ") + ")\n"
					}
					return "{\n" + core + "}\n"
				}
				switch {
				case lf == "v" && rf == "v":
					body.WriteString("for _, x := range vals {\nfor _, y := range vals {\n" + cell("x", "y", true, true) + "}\n}\n")
				case lf == "v":
					body.WriteString("for _, x := range vals {\n")
					for i, v := range litvals {
						if (op == "/" || op == "%") && isZero(v) {
							continue
						}
						body.WriteString(cell("x", spelled(rf, i, v), true, false))
					}
					body.WriteString("}\n")
				default:
					body.WriteString("for _, y := range vals {\n")
					for i, v := range litvals {
						body.WriteString(cell(spelled(lf, i, v), "y", false, true))
					}
					body.WriteString("}\n")
				}
				add(fmt.Sprintf("%s %s %s%s %s", k.name, op, lf, rf, ctx), decls.String(), body.String())
			}
		}
	}
}

func isZero(v string) bool { return v == "0" || v == "0.0" }

func main() {
	out := emit.Root() + "/gen/c02cases"
	forms := []string{"v", "l", "c", "u"}
	arith := []string{"+", "-", "*", "/", "%", "&", "|", "^", "&^"}
	cmp := []string{"==", "!=", "<", "<=", ">", ">="}
	for _, k := range ints {
		vs := ivals(k)
		var tv []string
		for _, v := range vs {
			tv = append(tv, k.name+"("+v+")")
		}
		table := "[]" + k.name + "{" + strings.Join(tv, ", ") + "}"
		for _, op := range arith {
			binary(k, table, "", op, k.name, vs, op == "/" || op == "%", []string{"assign", "arg", "iface", "return", "compound", "compoundfield", "compoundelem"}, forms, forms)
		}
		for _, op := range cmp {
			binary(k, table, "", op, "bool", vs, false, []string{"assign", "arg", "cond", "return"}, forms, forms)
		}
		// shifts: variable counts of three kinds, constant counts, constant left operand
		for _, op := range []string{"<<", ">>"} {
			for _, ck := range []struct {
				name string
				vals []string
			}{{"uint8", []string{"0", "1", "7", "8", "15", "31", "32", "63", "64", "200"}}, {"int", []string{"-1", "-64", "0", "1", "7", "8", "31", "32", "63", "64", "65"}}, {"uint64", []string{"0", "1", "63", "64", "18446744073709551615"}}} {
				var cv []string
				for _, c := range ck.vals {
					cv = append(cv, ck.name+"("+c+")")
				}
				ct := "cnt := []" + ck.name + "{" + strings.Join(cv, ", ") + "}\n"
				for _, ctx := range []string{"assign", "arg", "iface", "return", "compound", "compoundfield"} {
					var decls string
					var core string
					switch ctx {
					case "assign":
						core = "r := x " + op + " c\nShow(r)\n"
					case "arg":
						core = "Show(x " + op + " c)\n"
					case "iface":
						core = "var e interface{}\ne = x " + op + " c\nShow(e)\n"
					case "return":
						decls = "func f(x " + k.name + ", c " + ck.name + ") " + k.name + " {\nreturn x " + op + " c\n}\n"
						core = "Show(f(x, c))\n"
					case "compound":
						core = "r := x\nr " + op + "= c\nShow(r)\n"
					case "compoundfield":
						core = "var st struct{ A, F " + k.name + " }\nst.F = x\nst.F " + op + "= c\nShow(st.F, st.A)\n"
					}
					body := "vals := " + table + "\n" + ct + "for _, x := range vals {\nfor _, c := range cnt {\nfunc(x " + k.name + ", c " + ck.name + ") {\n" + guardOpen + core + "}(x, c)\n}\n}\n"
					add(fmt.Sprintf("%s %s vv:%s %s", k.name, op, ck.name, ctx), decls, body)
					// constant (typed) left operand, variable count
					if ctx == "assign" || ctx == "arg" || ctx == "return" {
						var b strings.Builder
						d := ""
						b.WriteString(ct + "for _, c := range cnt {\n")
						for i, L := range []string{"1", "7", vs[len(vs)-1], vs[0]} {
							d += fmt.Sprintf("const cT%d %s = %s\n", i, k.name, L)
							X := fmt.Sprintf("cT%d", i)
							var cc string
							switch ctx {
							case "assign":
								cc = "r := " + X + " " + op + " c\nShow(r)\n"
							case "arg":
								cc = "Show(" + X + " " + op + " c)\n"
							case "return":
								d += fmt.Sprintf("func f%d(c %s) %s {\nreturn %s %s c\n}\n", i, ck.name, k.name, X, op)
								cc = fmt.Sprintf("Show(f%d(c))\n", i)
							}
							b.WriteString("func(c " + ck.name + ") {\n" + guardOpen + cc + "}(c)\n")
						}
						b.WriteString("}\n")
						add(fmt.Sprintf("%s %s cv:%s %s", k.name, op, ck.name, ctx), d, b.String())
					}
				}
			}
			// constant counts (literal and named), variable left operand
			counts := []int{0, 1, 7, k.bits - 1, k.bits, k.bits + 1, 64, 65, 200}
			for _, form := range []string{"l", "c", "u"} {
				for _, ctx := range []string{"assign", "arg", "iface", "return", "compound"} {
					var d, b strings.Builder
					b.WriteString("vals := " + table + "\nfor _, x := range vals {\n")
					seen := map[int]bool{}
					for i, C := range counts {
						if seen[C] {
							continue
						}
						seen[C] = true
						Y := fmt.Sprint(C)
						switch form {
						case "c":
							Y = fmt.Sprintf("cT%d", i)
							fmt.Fprintf(&d, "const %s uint = %d\n", Y, C)
						case "u":
							Y = fmt.Sprintf("cU%d", i)
							fmt.Fprintf(&d, "const %s = %d\n", Y, C)
						}
						switch ctx {
						case "assign":
							b.WriteString("{\nr := x " + op + " " + Y + "\nShow(r)\n}\n")
						case "arg":
							b.WriteString("Show(x " + op + " " + Y + ")\n")
						case "iface":
							b.WriteString("{\nvar e interface{}\ne = x " + op + " " + Y + "\nShow(e)\n}\n")
						case "return":
							fmt.Fprintf(&d, "func f%d(x %s) %s {\nreturn x %s %s\n}\n", i, k.name, k.name, op, Y)
							fmt.Fprintf(&b, "Show(f%d(x))\n", i)
						case "compound":
							b.WriteString("{\nr := x\nr " + op + "= " + Y + "\nShow(r)\n}\n")
						}
					}
					b.WriteString("}\n")
					add(fmt.Sprintf("%s %s v%s %s", k.name, op, form, ctx), d.String(), b.String())
				}
			}
		}
		// unary, inc/dec
		for _, u := range []string{"-", "+", "^"} {
			add(fmt.Sprintf("%s unary%s assign", k.name, u), "", "vals := "+table+"\nfor _, x := range vals {\nr := "+u+"x\nShow(r)\n}\n")
			add(fmt.Sprintf("%s unary%s arg", k.name, u), "", "vals := "+table+"\nfor _, x := range vals {\nShow("+u+"x)\n}\n")
			add(fmt.Sprintf("%s unary%s return", k.name, u), "func f(x "+k.name+") "+k.name+" {\nreturn "+u+"x\n}\n", "vals := "+table+"\nfor _, x := range vals {\nShow(f(x))\n}\n")
			add(fmt.Sprintf("%s unary%s iface", k.name, u), "", "vals := "+table+"\nfor _, x := range vals {\nvar e interface{}\ne = "+u+"x\nShow(e)\n}\n")
		}
		for _, u := range []string{"++", "--"} {
			add(fmt.Sprintf("%s %s local", k.name, u), "", "vals := "+table+"\nfor _, x := range vals {\ny := x\ny"+u+"\nShow(y, x)\n}\n")
			add(fmt.Sprintf("%s %s field", k.name, u), "", "vals := "+table+"\nfor _, x := range vals {\nvar st struct{ A, F "+k.name+" }\nst.F = x\nst.F"+u+"\nShow(st.F, st.A)\n}\n")
			add(fmt.Sprintf("%s %s elem", k.name, u), "", "vals := "+table+"\nfor _, x := range vals {\nsl := []"+k.name+"{0, x}\nsl[1]"+u+"\nShow(sl[1], sl[0])\n}\n")
			add(fmt.Sprintf("%s %s pointee", k.name, u), "", "vals := "+table+"\nfor _, x := range vals {\ny := x\np := &y\n*p"+u+"\nShow(y, x)\n}\n")
		}
		// conversions from this integer kind
		for _, k2 := range append(append([]kind{}, ints...), floats...) {
			conv(k, table, "", k2.name)
		}
		conv(k, table, "", "string")
	}
	for _, k := range floats {
		lits, extra := fvals(k)
		table := "[]" + k.name + "{" + strings.Join(lits, ", ") + "}"
		litvals := []string{"0.1", "3", "-2.5", "1e30", "0"}
		for _, op := range []string{"+", "-", "*", "/"} {
			binary(k, table, extra, op, k.name, litvals, false, []string{"assign", "arg", "iface", "return", "compound", "compoundfield", "compoundelem"}, forms, forms)
		}
		for _, op := range cmp {
			binary(k, table, extra, op, "bool", litvals, false, []string{"assign", "arg", "cond", "return"}, forms, forms)
		}
		for _, u := range []string{"-", "+"} {
			add(fmt.Sprintf("%s unary%s assign", k.name, u), "", "vals := "+table+"\n"+extra+"for _, x := range vals {\nr := "+u+"x\nShow(r)\n}\n")
			add(fmt.Sprintf("%s unary%s arg", k.name, u), "", "vals := "+table+"\n"+extra+"for _, x := range vals {\nShow("+u+"x)\n}\n")
			add(fmt.Sprintf("%s unary%s return", k.name, u), "func f(x "+k.name+") "+k.name+" {\nreturn "+u+"x\n}\n", "vals := "+table+"\n"+extra+"for _, x := range vals {\nShow(f(x))\n}\n")
		}
		for _, u := range []string{"++", "--"} {
			add(fmt.Sprintf("%s %s local", k.name, u), "", "vals := "+table+"\n"+extra+"for _, x := range vals {\ny := x\ny"+u+"\nShow(y, x)\n}\n")
			add(fmt.Sprintf("%s %s field", k.name, u), "", "vals := "+table+"\n"+extra+"for _, x := range vals {\nvar st struct{ A, F "+k.name+" }\nst.F = x\nst.F"+u+"\nShow(st.F, st.A)\n}\n")
		}
		// float -> integer only for values representable after truncation (others are implementation-defined)
		for _, k2 := range ints {
			t := "[]" + k.name + "{0, 1, 1.9, 2.5, 100.99, 127.9}"
			if k2.signed {
				t = "[]" + k.name + "{0, 1, -1.9, 2.5, 100.99, -100.5, 127.9, -128.9}"
			}
			conv(k, t, "", k2.name)
		}
		for _, k2 := range floats {
			conv(k, table, extra, k2.name)
		}
	}
	for _, k := range complexes {
		table := "[]" + k.name + "{0, 1, 1i, complex(1.5, -2), complex(-3, 0.25), complex(1e10, 1e-10), complex(0.1, 0.1)}"
		litvals := []string{"2", "1i", "(0.5 - 2i)"}
		for _, op := range []string{"+", "-", "*", "/"} {
			binary(k, table, "", op, k.name, litvals, false, []string{"assign", "arg", "iface", "return", "compound"}, forms, forms)
		}
		for _, op := range []string{"==", "!="} {
			binary(k, table, "", op, "bool", litvals, false, []string{"assign", "arg", "cond", "return"}, forms, forms)
		}
		add(k.name+" parts", "", "vals := "+table+"\nfor _, x := range vals {\nShow(real(x), imag(x), -x, +x)\nr := -x\nShow(r)\n}\n")
		fk := "float64"
		if k.name == "complex64" {
			fk = "float32"
		}
		add(k.name+" build", "", "vals := []"+fk+"{0, 1, -2.5, 0.1}\nfor _, x := range vals {\nfor _, y := range vals {\nc := complex(x, y)\nShow(c, real(c), imag(c))\n}\n}\n")
		for _, k2 := range complexes {
			conv(k, table, "", k2.name)
		}
	}
	// strings
	{
		k := kind{"string", 0, false, "string"}
		table := `[]string{"", "a", "ab", "b", "é", "a\x00"}`
		litvals := []string{`""`, `"a"`, `"é"`}
		binary(k, table, "", "+", "string", litvals, false, []string{"assign", "arg", "iface", "return", "compound", "compoundfield", "compoundelem"}, forms, forms)
		for _, op := range cmp {
			binary(k, table, "", op, "bool", litvals, false, []string{"assign", "arg", "cond", "return"}, forms, forms)
		}
		add("string conv", "", "for _, r := range []rune{0, 65, 0xe9, 0x10ffff, -1, 0xd800, 0x110000} {\nShow(string(r))\ns := string(r)\nShow(len(s), s)\n}\nfor _, b := range []byte{0, 65, 200} {\nShow(string(rune(b)))\n}\n"+
			"for _, s := range []string{\"\", \"aéz\", \"\\xff\"} {\nShow([]byte(s), []rune(s), string([]byte(s)), string([]rune(s)))\nbs := []byte(s)\nrs := []rune(s)\nShow(len(bs), len(rs))\n}\n")
	}
	// bools
	{
		k := kind{"bool", 0, false, "bool"}
		table := "[]bool{false, true}"
		litvals := []string{"true", "false"}
		for _, op := range []string{"&&", "||", "==", "!="} {
			binary(k, table, "", op, "bool", litvals, false, []string{"assign", "arg", "iface", "cond", "return"}, forms, forms)
		}
		add("bool not", "func f(x bool) bool {\nreturn !x\n}\n", "for _, x := range []bool{false, true} {\nr := !x\nShow(r, !x, f(x))\nif !x {\nShow(1)\n} else {\nShow(0)\n}\nvar e interface{}\ne = !x\nShow(e)\n}\n")
	}
	res, err := emit.Package(out, "c02cases", progs, 64)
	if err != nil {
		fmt.Fprintln(os.Stderr, "HARNESS-ERROR:", err)
		os.Exit(3)
	}
	if len(res.Rejected) > 0 {
		for i, r := range res.Rejected {
			if i < 10 {
				fmt.Fprintln(os.Stderr, "HARNESS-ERROR: generated program rejected by go/types:", r)
			}
		}
		fmt.Fprintf(os.Stderr, "HARNESS-ERROR: %d generated programs rejected\n", len(res.Rejected))
		os.Exit(3)
	}
	fmt.Printf("c02 gen: %d programs\n", res.Emitted)
}

func conv(k kind, table, pre, to string) {
	for _, ctx := range []string{"assign", "arg", "iface", "return"} {
		var d, core string
		switch ctx {
		case "assign":
			core = "r := " + to + "(x)\nShow(r)\n"
		case "arg":
			core = "Show(" + to + "(x))\n"
		case "iface":
			core = "var e interface{}\ne = " + to + "(x)\nShow(e)\n"
		case "return":
			d = "func f(x " + k.name + ") " + to + " {\nreturn " + to + "(x)\n}\n"
			core = "Show(f(x))\n"
		}
		add(fmt.Sprintf("%s conv:%s %s", k.name, to, ctx), d, "vals := "+table+"\n"+pre+"for _, x := range vals {\n"+core+"}\n")
	}
}
