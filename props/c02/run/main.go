// C02: every operator / conversion cell against the compiled twin.
package main

import (
	"strings"

	"verif/engine/par"
	"verif/engine/report"
	"verif/engine/twin"
	_ "verif/gen/c02cases"
)

func main() {
	r := report.Start("C02", "model_checking")
	if r.Replay != "" {
		twin.Replay(r, twin.Options{})
	}
	r.Assumptions = []string{
		"reference = the Go compiler (gc) applied to the identical program text",
		"constant-only cells (literal op literal) belong to C03; float->int conversions of NaN/out-of-range values are implementation-defined and excluded",
	}
	// quick and thorough enumerate the same complete cross product (it is finite and cheap once the twins are compiled)
	twin.RunAll(r, nil, key, twin.Options{}, par.Opts{})
	r.Set("exhaustive", true)
	r.Set("rule", "one program per (kind, operator, operand forms, result context); cells = boundary-value table; non-trivial = output lines not all equal; states = distinct program outputs; transitions = cells shown")
	r.Set("dimensions", strings.Join(twin.Names(), " "))
	r.Finish()
}

// key = (kind, operator, operand forms, result context, which cells differ).
func key(c twin.Case, n, i twin.Obs) string {
	if n.End != i.End {
		return c.Name + "|end:" + n.End + "/" + i.End
	}
	return c.Name + "|" + twin.Pattern(n, i)
}
