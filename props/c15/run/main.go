// C15: package initialisation order. All dependency graphs over a few package-level variables
// (direct references, references through one or two function bodies, method values, multi-variable
// declarations), split over files and packages, with init functions; the reference model is
// types.Info.InitOrder + the spec's rules for init functions and imports; every model answer is
// replayed on the interpreter (each initialiser logs its own name).
package main

import (
	"bytes"
	"fmt"
	"go/ast"
	"go/parser"
	"go/token"
	"go/types"
	"os"
	"sort"
	"strings"
	"testing/fstest"

	"github.com/traefik/yaegi/interp"
	"verif/engine/par"
	"verif/engine/report"
	"verif/engine/twin/emit"
	"verif/engine/twin/h"
)

// prog is a set of packages; files of package main are in "main/"; other packages in "<name>/".
type prog struct {
	Name  string            `json:"name"`
	Files map[string]string `json:"files"`          // path relative to GOPATH/src
	Entry string            `json:"entry"`          // "eval" (single main file via Eval) or "dir" (EvalPath on the main directory)
	Vals  []string          `json:"vals,omitempty"` // package main variables whose final values main shows (model: evaluated in InitOrder)
}

var imp = emit.NewImporter()

type mapImporter struct {
	base types.Importer
	pkgs map[string]*types.Package
}

func (m mapImporter) Import(p string) (*types.Package, error) {
	if pk, ok := m.pkgs[p]; ok {
		return pk, nil
	}
	return m.base.Import(p)
}

// model computes the expected log with go/types.
func model(p prog) (string, error) {
	// group files by package dir
	dirs := map[string][]string{}
	for path := range p.Files {
		d := path[:strings.LastIndex(path, "/")]
		dirs[d] = append(dirs[d], path)
	}
	checked := map[string]*types.Package{}
	infos := map[string]*types.Info{}
	filesOf := map[string][]*ast.File{}
	fset := token.NewFileSet()
	var check func(dir string) error
	check = func(dir string) error {
		if _, ok := checked[dir]; ok {
			return nil
		}
		paths := dirs[dir]
		sort.Strings(paths)
		var files []*ast.File
		for _, path := range paths {
			f, err := parser.ParseFile(fset, path, p.Files[path], parser.SkipObjectResolution)
			if err != nil {
				return err
			}
			files = append(files, f)
			for _, is := range f.Imports {
				ip := strings.Trim(is.Path.Value, "\"")
				if _, ok := dirs[ip]; ok {
					if err := check(ip); err != nil {
						return err
					}
				}
			}
		}
		info := &types.Info{Defs: map[*ast.Ident]types.Object{}}
		var first error
		conf := types.Config{Importer: mapImporter{imp, checked}, GoVersion: "go1.22", Error: func(e error) {
			if first == nil {
				first = e
			}
		}}
		name := dir
		pkg, _ := conf.Check(name, fset, files, info)
		if first != nil {
			return first
		}
		checked[dir] = pkg
		infos[dir] = info
		filesOf[dir] = files
		return nil
	}
	if err := check("main"); err != nil {
		return "", err
	}
	// initialisation: dependency order of packages (imports first, in order of import declarations), each once
	var log []string
	env := map[string]int{}
	var evalErr error
	done := map[string]bool{}
	var initPkg func(dir string)
	initPkg = func(dir string) {
		if done[dir] {
			return
		}
		done[dir] = true
		for _, f := range filesOf[dir] {
			for _, is := range f.Imports {
				ip := strings.Trim(is.Path.Value, "\"")
				if _, ok := dirs[ip]; ok {
					initPkg(ip)
				}
			}
		}
		for _, ini := range infos[dir].InitOrder {
			// every initialiser that calls lg logs "<pkg>.<first lhs name>" exactly once by construction; an initialiser
			// without a call to lg (a bare identifier, family MV) is silent and only shows through the values
			if callsLg(ini.Rhs) {
				log = append(log, "var "+dir+"."+ini.Lhs[0].Name())
			}
			if dir == "main" && len(p.Vals) > 0 {
				v, err := evalInit(ini.Rhs, env)
				if err != nil {
					evalErr = err
				}
				env[ini.Lhs[0].Name()] = v
			}
		}
		for _, f := range filesOf[dir] {
			n := 0
			for _, d := range f.Decls {
				if fd, ok := d.(*ast.FuncDecl); ok && fd.Recv == nil && fd.Name.Name == "init" {
					log = append(log, fmt.Sprintf("init %s.%s#%d", dir, fileBase(fset.Position(f.Pos()).Filename), n))
					n++
				}
			}
		}
	}
	initPkg("main")
	log = append(log, "main")
	if evalErr != nil {
		return "", fmt.Errorf("HARNESS: value model: %v", evalErr)
	}
	if len(p.Vals) > 0 {
		l := "vals"
		for _, n := range p.Vals {
			l += fmt.Sprint(" ", env[n])
		}
		log = append(log, l)
	}
	return strings.Join(log, "\n") + "\n", nil
}

// callsLg reports whether the initialiser expression contains a call to lg.
func callsLg(e ast.Expr) bool {
	found := false
	ast.Inspect(e, func(n ast.Node) bool {
		if c, ok := n.(*ast.CallExpr); ok {
			if id, ok := c.Fun.(*ast.Ident); ok && id.Name == "lg" {
				found = true
			}
		}
		return true
	})
	return found
}

// evalInit evaluates an initialiser of the MV family: identifiers, lg(...) (= 1), integer literals, + and parentheses.
func evalInit(e ast.Expr, env map[string]int) (int, error) {
	switch x := e.(type) {
	case *ast.Ident:
		return env[x.Name], nil
	case *ast.BasicLit:
		var v int
		_, err := fmt.Sscan(x.Value, &v)
		return v, err
	case *ast.ParenExpr:
		return evalInit(x.X, env)
	case *ast.CallExpr:
		if id, ok := x.Fun.(*ast.Ident); ok && id.Name == "lg" {
			return 1, nil
		}
	case *ast.BinaryExpr:
		if x.Op == token.ADD {
			a, err := evalInit(x.X, env)
			if err != nil {
				return 0, err
			}
			b, err := evalInit(x.Y, env)
			return a + b, err
		}
	}
	return 0, fmt.Errorf("expression outside the value model")
}

func fileBase(p string) string { return p[strings.LastIndex(p, "/")+1:] }

func runInterp(p prog) (out string, err error) {
	var buf bytes.Buffer
	steps := 0
	defer func() {
		if r := recover(); r != nil {
			err = fmt.Errorf("HOSTPANIC: %v", r)
			out = buf.String()
		}
	}()
	mfs := fstest.MapFS{}
	for path, src := range p.Files {
		mfs["gp/src/"+path] = &fstest.MapFile{Data: []byte(src)}
	}
	i := interp.New(interp.Options{Stdout: &buf, Stderr: &bytes.Buffer{}, GoPath: "./gp", SourcecodeFilesystem: mfs})
	i.Use(h.Exports(&buf, &steps))
	if p.Entry == "dir" {
		_, err = i.EvalPath("./gp/src/main")
	} else {
		_, err = i.Eval(p.Files["main/a.go"])
	}
	return buf.String(), err
}

// ---------- generation ----------

const imph = "import . \"verif/engine/twin/h\"\n\n"

// edge kinds: how variable i refers to variable j
var kinds = []string{"direct", "func", "func2", "method"}

type graph struct {
	n    int
	deps [][]int    // deps[i] = sorted list of j that i depends on
	kind [][]string // kind[i][k] for deps[i][k]
}

// varDecl renders variable i of the graph in package pkg; helper funcs are appended to *funcs.
func (g graph) varDecl(pkg string, i int, funcs *strings.Builder, names []string) string {
	var terms []string
	for k, j := range g.deps[i] {
		switch g.kind[i][k] {
		case "direct":
			terms = append(terms, names[j])
		case "func":
			fn := fmt.Sprintf("f_%s_%s", names[i], names[j])
			fmt.Fprintf(funcs, "func %s() int { return %s }\n\n", fn, names[j])
			terms = append(terms, fn+"()")
		case "func2":
			fn := fmt.Sprintf("g_%s_%s", names[i], names[j])
			fmt.Fprintf(funcs, "func %s() int { return %s_in() }\n\nfunc %s_in() int { return %s + 0 }\n\n", fn, fn, fn, names[j])
			terms = append(terms, fn+"()")
		case "method":
			fn := fmt.Sprintf("M_%s_%s", names[i], names[j])
			fmt.Fprintf(funcs, "func (recvT) %s() int { return %s }\n\n", fn, names[j])
			terms = append(terms, "recvT{}."+fn+"()")
		}
	}
	expr := fmt.Sprintf("lg(\"var %s.%s\")", pkg, names[i])
	if len(terms) > 0 {
		expr += " + " + strings.Join(terms, " + ")
	}
	return fmt.Sprintf("var %s = %s\n\n", names[i], expr)
}

const helpers = "type recvT struct{}\n\nfunc lg(s string) int { Show(s); return 1 }\n\n"

// dags enumerates all DAGs on n labelled nodes (edge i->j means i depends on j), any direction w.r.t. declaration order.
func dags(n int) [][][]int {
	var pairs [][2]int
	for i := 0; i < n; i++ {
		for j := 0; j < n; j++ {
			if i != j {
				pairs = append(pairs, [2]int{i, j})
			}
		}
	}
	var out [][][]int
	for mask := 0; mask < 1<<len(pairs); mask++ {
		deps := make([][]int, n)
		for b, pr := range pairs {
			if mask&(1<<b) != 0 {
				deps[pr[0]] = append(deps[pr[0]], pr[1])
			}
		}
		// acyclic?
		state := make([]int, n)
		var cyc bool
		var visit func(i int)
		visit = func(i int) {
			if state[i] == 1 {
				cyc = true
				return
			}
			if state[i] == 2 || cyc {
				return
			}
			state[i] = 1
			for _, j := range deps[i] {
				visit(j)
			}
			state[i] = 2
		}
		for i := 0; i < n && !cyc; i++ {
			visit(i)
		}
		if !cyc {
			out = append(out, deps)
		}
	}
	return out
}

func edgeCount(deps [][]int) int {
	c := 0
	for _, d := range deps {
		c += len(d)
	}
	return c
}

var varNames = []string{"a", "b", "c", "d"}

func singleFile(g graph, inits int, tag string) prog {
	var b, funcs strings.Builder
	b.WriteString("package main\n\n" + imph + helpers)
	for i := 0; i < g.n; i++ {
		b.WriteString(g.varDecl("main", i, &funcs, varNames))
	}
	b.WriteString(funcs.String())
	for k := 0; k < inits; k++ {
		fmt.Fprintf(&b, "func init() { Show(\"init main.a.go#%d\") }\n\n", k)
	}
	b.WriteString("func main() { Show(\"main\") }\n")
	return prog{Name: tag, Files: map[string]string{"main/a.go": b.String()}, Entry: "eval"}
}

func describe(g graph) string {
	var parts []string
	for i := 0; i < g.n; i++ {
		for k, j := range g.deps[i] {
			parts = append(parts, fmt.Sprintf("%s-%s->%s", varNames[i], g.kind[i][k], varNames[j]))
		}
	}
	if len(parts) == 0 {
		return "nodeps"
	}
	return strings.Join(parts, ",")
}

func programs(thorough, deep bool) []prog {
	var ps []prog
	// V: single file; n <= 3 with every assignment of edge kinds; n = 4 with a uniform kind per graph
	for n := 1; n <= 4; n++ {
		if n == 4 && !thorough {
			// quick: 4 variables with direct and func edges only on graphs with <= 3 edges
		}
		for _, deps := range dags(n) {
			e := edgeCount(deps)
			if n <= 3 {
				combos := 1
				for k := 0; k < e; k++ {
					combos *= len(kinds)
				}
				for c := 0; c < combos; c++ {
					g := graph{n: n, deps: deps, kind: make([][]string, n)}
					x := c
					for i := 0; i < n; i++ {
						for range deps[i] {
							g.kind[i] = append(g.kind[i], kinds[x%len(kinds)])
							x /= len(kinds)
						}
					}
					ps = append(ps, singleFile(g, 0, fmt.Sprintf("V n=%d %s", n, describe(g))))
				}
			} else {
				if !thorough && e > 3 {
					continue
				}
				if deep && e >= 2 && e <= 3 {
					// thorough: 4 variables, every assignment of edge kinds on the graphs with 2 or 3 edges
					// (the uniform assignments are produced below)
					combos := 1
					for k := 0; k < e; k++ {
						combos *= len(kinds)
					}
					for c := 0; c < combos; c++ {
						g := graph{n: n, deps: deps, kind: make([][]string, n)}
						x, uniform, first := c, true, ""
						for i := 0; i < n; i++ {
							for range deps[i] {
								kd := kinds[x%len(kinds)]
								if first == "" {
									first = kd
								} else if kd != first {
									uniform = false
								}
								g.kind[i] = append(g.kind[i], kd)
								x /= len(kinds)
							}
						}
						if !uniform {
							ps = append(ps, singleFile(g, 0, fmt.Sprintf("V n=%d %s", n, describe(g))))
						}
					}
				}
				for _, kd := range kinds {
					if e == 0 && kd != "direct" {
						continue
					}
					g := graph{n: n, deps: deps, kind: make([][]string, n)}
					for i := 0; i < n; i++ {
						for range deps[i] {
							g.kind[i] = append(g.kind[i], kd)
						}
					}
					ps = append(ps, singleFile(g, 0, fmt.Sprintf("V n=%d %s", n, describe(g))))
				}
			}
		}
	}
	// M: multi-variable declarations and init functions
	multi := []struct{ name, body string }{
		{"pair-after", "var a, b = pair()\n\nvar c = lg(\"var main.c\")\n\nfunc pair() (int, int) { Show(\"var main.a\"); return c, 2 }\n\n"},
		{"pair-before", "var c = lg(\"var main.c\") + a\n\nvar a, b = pair()\n\nfunc pair() (int, int) { Show(\"var main.a\"); return 1, 2 }\n\n"},
		{"blank", "var _ = lg(\"var main._\") + b\n\nvar b = lg(\"var main.b\")\n\n"},
		{"typed", "var a int = lg(\"var main.a\") + b\n\nvar b int = lg(\"var main.b\")\n\n"},
		{"group", "var (\n\ta = lg(\"var main.a\") + c\n\tb = lg(\"var main.b\")\n\tc = lg(\"var main.c\") + b\n)\n\n"},
		{"closure", "var a = func() int { return lg(\"var main.a\") + b }()\n\nvar b = lg(\"var main.b\")\n\n"},
		{"funcvalue", "var a = apply(fb)\n\nvar b = lg(\"var main.b\")\n\nfunc fb() int { return b }\n\nfunc apply(f func() int) int { Show(\"var main.a\"); return f() }\n\n"},
		{"field-key-name", "type T struct{ X int }\n\nvar a = T{X: lg(\"var main.a\")}\n\nvar X = lg(\"var main.X\") + a.X\n\n"},
		{"closure-local-shadow", "var a = func() int { b := 2; return b + lg(\"var main.a\") }()\n\nvar b = lg(\"var main.b\") + a\n\n"},
		{"blank-multi", "var _, y = lg(\"var main._\"), lg(\"var main.y\") + z\n\nvar z = lg(\"var main.z\")\n\n"},
		{"spec-example", "var a = lg(\"var main.a\") + b\n\nvar b = lg(\"var main.b\") + c\n\nvar c = lg(\"var main.c\")\n\nvar d = lg(\"var main.d\")\n\n"},
	}
	for _, m := range multi {
		for inits := 0; inits <= 2; inits++ {
			var b strings.Builder
			b.WriteString("package main\n\n" + imph + helpers + m.body)
			for k := 0; k < inits; k++ {
				fmt.Fprintf(&b, "func init() { Show(\"init main.a.go#%d\") }\n\n", k)
			}
			b.WriteString("func main() { Show(\"main\") }\n")
			ps = append(ps, prog{Name: fmt.Sprintf("M %s inits=%d", m.name, inits), Files: map[string]string{"main/a.go": b.String()}, Entry: "eval"})
		}
	}
	// MV: n:n multi-value declarations whose initialisers are (also) bare identifiers of variables declared later, in every
	// position; a consumer declared first; final values shown by main
	x := "var x = lg(\"var main.x\")\n\nvar y = lg(\"var main.y\") + 1\n\n"
	mv := []struct {
		name, body string
		vals       []string
	}{
		{"bare-first", "var z = lg(\"var main.z\") + a + b\n\nvar a, b = x, lg(\"var main.b\")\n\n" + x, []string{"a", "b", "x", "y", "z"}},
		{"bare-last", "var z = lg(\"var main.z\") + a + b\n\nvar a, b = lg(\"var main.a\"), x\n\n" + x, []string{"a", "b", "x", "y", "z"}},
		{"bare-both", "var z = lg(\"var main.z\") + a + b\n\nvar a, b = x, y\n\n" + x, []string{"a", "b", "x", "y", "z"}},
		{"bare-both-swapped", "var z = lg(\"var main.z\") + a + b\n\nvar a, b = y, x\n\n" + x, []string{"a", "b", "x", "y", "z"}},
		{"typed", "var z = lg(\"var main.z\") + a + b\n\nvar a, b int = x, lg(\"var main.b\") + y\n\n" + x, []string{"a", "b", "x", "y", "z"}},
		{"three", "var z = lg(\"var main.z\") + a + b + c\n\nvar a, b, c = x, y, lg(\"var main.c\")\n\n" + x, []string{"a", "b", "c", "x", "y", "z"}},
		{"three-bare-middle", "var z = lg(\"var main.z\") + a + b + c\n\nvar a, b, c = lg(\"var main.a\"), x, lg(\"var main.c\") + y\n\n" + x, []string{"a", "b", "c", "x", "y", "z"}},
		{"expr-first", "var z = lg(\"var main.z\") + a + b\n\nvar a, b = x + 0, y\n\n" + x, []string{"a", "b", "x", "y", "z"}},
		{"grouped", "var (\n\ta, b = x, y\n\tc    = lg(\"var main.c\") + a\n)\n\n" + x, []string{"a", "b", "c", "x", "y"}},
		{"chain", "var a, b = x, w\n\nvar x = lg(\"var main.x\") + w\n\nvar w = lg(\"var main.w\")\n\n", []string{"a", "b", "x", "w"}},
		{"single-bare", "var z = lg(\"var main.z\") + a\n\nvar a = x\n\n" + x, []string{"a", "x", "y", "z"}},
	}
	for _, m := range mv {
		for inits := 0; inits <= 1; inits++ {
			var b strings.Builder
			b.WriteString("package main\n\n" + imph + helpers + m.body)
			for k := 0; k < inits; k++ {
				fmt.Fprintf(&b, "func init() { Show(\"init main.a.go#%d\") }\n\n", k)
			}
			b.WriteString("func main() {\n\tShow(\"main\")\n\tShow(\"vals\", " + strings.Join(m.vals, ", ") + ")\n}\n")
			ps = append(ps, prog{Name: fmt.Sprintf("MV %s inits=%d", m.name, inits), Files: map[string]string{"main/a.go": b.String()}, Entry: "eval", Vals: m.vals})
		}
	}
	// F: two files; 3 variables, uniform kinds, every assignment of variables to files, 0-2 init functions per file
	for _, deps := range dags(3) {
		for _, kd := range []string{"direct", "func"} {
			if edgeCount(deps) == 0 && kd != "direct" {
				continue
			}
			g := graph{n: 3, deps: deps, kind: make([][]string, 3)}
			for i := 0; i < 3; i++ {
				for range deps[i] {
					g.kind[i] = append(g.kind[i], kd)
				}
			}
			for assign := 0; assign < 8; assign++ {
				for _, inits := range [][2]int{{0, 0}, {1, 1}, {2, 1}} {
					if !thorough && (inits != [2]int{1, 1}) && assign != 5 {
						continue
					}
					files := [2]strings.Builder{}
					funcs := [2]strings.Builder{}
					files[0].WriteString("package main\n\n" + imph + helpers)
					files[1].WriteString("package main\n\n" + imph)
					for i := 0; i < 3; i++ {
						fi := (assign >> i) & 1
						files[fi].WriteString(g.varDecl("main", i, &funcs[fi], varNames))
					}
					for fi := 0; fi < 2; fi++ {
						files[fi].WriteString(funcs[fi].String())
						for k := 0; k < inits[fi]; k++ {
							fmt.Fprintf(&files[fi], "func init() { Show(\"init main.%s.go#%d\") }\n\n", string(rune('a'+fi)), k)
						}
					}
					files[1].WriteString("func main() { Show(\"main\") }\n")
					if !strings.Contains(files[1].String(), "Show(") {
						continue
					}
					ps = append(ps, prog{Name: fmt.Sprintf("F %s files=%03b inits=%d,%d", describe(g), assign, inits[0], inits[1]),
						Files: map[string]string{"main/a.go": files[0].String(), "main/b.go": files[1].String()}, Entry: "dir"})
				}
			}
		}
	}
	// P: imported packages: complete initialisation before the importer, exactly once
	pkgSrc := func(name string, imports []string, uses string) string {
		var b strings.Builder
		b.WriteString("package " + name + "\n\nimport (\n\t. \"verif/engine/twin/h\"\n")
		for _, ip := range imports {
			fmt.Fprintf(&b, "\t\"%s\"\n", ip)
		}
		b.WriteString(")\n\nfunc lg(s string) int { Show(s); return 1 }\n\n")
		fmt.Fprintf(&b, "var X = lg(\"var %s.X\") + y%s\n\nvar y = lg(\"var %s.y\")\n\n", name, uses, name)
		fmt.Fprintf(&b, "func init() { Show(\"init %s.%s.go#0\") }\n\n", name, name)
		return b.String()
	}
	mainSrc := func(imports []string, uses string) string {
		var b strings.Builder
		b.WriteString("package main\n\nimport (\n\t. \"verif/engine/twin/h\"\n")
		for _, ip := range imports {
			fmt.Fprintf(&b, "\t\"%s\"\n", ip)
		}
		b.WriteString(")\n\nfunc lg(s string) int { Show(s); return 1 }\n\n")
		fmt.Fprintf(&b, "var a = lg(\"var main.a\")%s\n\nfunc init() { Show(\"init main.a.go#0\") }\n\nfunc main() { Show(\"main\") }\n", uses)
		return b.String()
	}
	ps = append(ps,
		prog{Name: "P single", Entry: "eval", Files: map[string]string{"main/a.go": mainSrc([]string{"p"}, " + p.X"), "p/p.go": pkgSrc("p", nil, "")}},
		prog{Name: "P chain", Entry: "eval", Files: map[string]string{"main/a.go": mainSrc([]string{"q"}, " + q.X"), "q/q.go": pkgSrc("q", []string{"p"}, " + p.X"), "p/p.go": pkgSrc("p", nil, "")}},
		prog{Name: "P diamond", Entry: "eval", Files: map[string]string{"main/a.go": mainSrc([]string{"q", "r"}, " + q.X + r.X"), "q/q.go": pkgSrc("q", []string{"p"}, " + p.X"), "r/r.go": pkgSrc("r", []string{"p"}, " + p.X"), "p/p.go": pkgSrc("p", nil, "")}},
		prog{Name: "P fan-in-main-first", Entry: "eval", Files: map[string]string{"main/a.go": mainSrc([]string{"p", "q"}, " + q.X + p.X"), "q/q.go": pkgSrc("q", []string{"p"}, " + p.X"), "p/p.go": pkgSrc("p", nil, "")}},
		prog{Name: "P unused-blank-import", Entry: "eval", Files: map[string]string{"main/a.go": strings.Replace(mainSrc([]string{"p"}, ""), "\t\"p\"", "\t_ \"p\"", 1), "p/p.go": pkgSrc("p", nil, "")}},
		prog{Name: "P dir-entry", Entry: "dir", Files: map[string]string{"main/a.go": mainSrc([]string{"q"}, " + q.X"), "q/q.go": pkgSrc("q", []string{"p"}, " + p.X"), "p/p.go": pkgSrc("p", nil, "")}},
	)
	return ps
}

type fail struct {
	P    prog   `json:"program"`
	Want string `json:"model"`
	Got  string `json:"interpreter"`
	Err  string `json:"err"`
}

func one(p prog) *fail {
	want, err := model(p)
	if err != nil {
		return &fail{P: p, Err: "MODEL: " + err.Error()}
	}
	got, ierr := runInterp(p)
	par.Count("programs", 1)
	par.Count("initialisers", int64(strings.Count(want, "\n")))
	par.Distinct("orders", want)
	if ierr == nil && got == want {
		return nil
	}
	f := &fail{P: p, Want: want, Got: got}
	if ierr != nil {
		f.Err = strings.SplitN(ierr.Error(), "\n", 2)[0]
	}
	return f
}

func main() {
	r := report.Start("C15", "model_checking")
	if r.Replay != "" {
		var cs []fail
		if err := report.ReadReplay(r.Replay, &cs); err != nil {
			fmt.Fprintln(os.Stderr, "HARNESS-ERROR:", err)
			os.Exit(3)
		}
		bad := 0
		for _, c := range cs {
			if f := one(c.P); f != nil {
				bad++
				fmt.Printf("replay %s: DIFFERS\n model:       %q\n interpreter: %q err=%s\n", c.P.Name, f.Want, f.Got, f.Err)
				for path, src := range c.P.Files {
					fmt.Printf("--- %s ---\n%s\n", path, src)
				}
			} else {
				fmt.Printf("replay %s: agrees now\n", c.P.Name)
			}
		}
		if bad > 0 {
			fmt.Printf("VIOLATION property=C15 replay=%s\n", r.Replay)
			os.Exit(1)
		}
		os.Exit(0)
	}
	ps := programs(true, r.Thorough()) // quick tier = the former thorough space; thorough adds n=4 with mixed edge kinds
	res := par.Map(len(ps), func(i int) *fail { return one(ps[i]) }, par.Opts{})
	failing := map[string]bool{}
	for _, f := range res.Outs {
		failing[f.P.Name] = true
	}
	for _, f := range res.Outs {
		if strings.HasPrefix(f.Err, "MODEL:") {
			r.HarnessError("%s: %s", f.P.Name, f.Err)
			continue
		}
		key := keyOf(f.P.Name, failing)
		if strings.HasPrefix(f.P.Name, "MV ") {
			// the same program can fail in two ways: only the order of the log differs, or the final values differ
			key = f.P.Name + " | " + mvSymptom(f.Want, f.Got, f.Err)
		}
		r.Fail(report.Failure{Key: key, What: fmt.Sprintf("%s: model=%q interpreter=%q err=%s", f.P.Name, f.Want, f.Got, f.Err), Case: f})
	}
	for _, a := range res.Abnormal {
		r.Fail(report.Failure{Key: ps[a.Idx].Name + "|" + a.Kind, What: ps[a.Idx].Name + ": interpreter " + a.Kind, Case: fail{P: ps[a.Idx], Err: a.Kind}})
	}
	n := res.Counts["programs"]
	r.Set("evaluations", n)
	r.Set("states", len(res.Sets["orders"]))
	r.Set("transitions", res.Counts["initialisers"])
	r.Set("traces_validated_against_impl", n)
	r.Set("distinct_nontrivial", len(res.Sets["orders"]))
	r.Set("exhaustive", true)
	r.Set("rule", "V: every DAG over n<=3 package-level variables with every assignment of 4 edge kinds (direct, through one function, through two functions, through a method), n=4 with a uniform kind; M: multi-variable / blank / grouped / closure / function-value forms x 0-2 init functions; MV: n:n multi-value declarations with bare identifiers of later variables in every position (values of all variables shown by main, model evaluates them in InitOrder); F: 3 variables over two files, every file assignment, init functions per file, EvalPath on the directory; P: single import, chain, diamond, fan-in, blank import, directory entry. states = distinct expected initialisation logs; transitions = initialisers/inits/main logged")
	r.Assumptions = []string{"go/types Info.InitOrder + spec rules (inits in file-name then source order, imports first, each package once) are the reference model", "every initialiser logs exactly once; programs are DAGs (initialisation cycles are compile errors, not C15's business)"}
	for _, i := range []int{0, len(ps) / 2, len(ps) - 1} {
		r.Sample(ps[i])
	}
	r.Finish()
}

// keyOf attributes a V-family failure to a failing graph with one edge removed or with fewer variables
// when there is one; other families are their own keys.
func mvSymptom(want, got, err string) string {
	last := func(s string) string {
		l := strings.Split(strings.TrimSpace(s), "\n")
		return l[len(l)-1]
	}
	switch {
	case err != "":
		return "error"
	case last(want) != last(got):
		return "final values differ"
	}
	return "order of the log differs, values agree"
}

func keyOf(name string, failing map[string]bool) string {
	if strings.HasPrefix(name, "F ") {
		// the same graph in a single file
		if cand := "V n=3 " + strings.Fields(name)[1]; failing[cand] {
			return keyOf(cand, failing)
		}
		return name
	}
	if strings.HasPrefix(name, "M ") || strings.HasPrefix(name, "MV ") {
		if cand := strings.Fields(name)[0] + " " + strings.Fields(name)[1] + " inits=0"; failing[cand] {
			return cand
		}
		return name
	}
	if !strings.HasPrefix(name, "V ") {
		return name
	}
	// "V n=3 a-func->b,b-direct->c"
	f := strings.Fields(name)
	edges := strings.Split(f[2], ",")
	if f[2] == "nodeps" {
		return name
	}
	// simplest: the same edge set with every kind replaced by the kind of the edge (single-edge graphs)
	for _, e := range edges {
		for n := 2; n <= 4; n++ {
			cand := fmt.Sprintf("V n=%d %s", n, e)
			if cand != name && failing[cand] {
				return cand
			}
		}
	}
	for k := range edges {
		rest := append(append([]string{}, edges[:k]...), edges[k+1:]...)
		if len(rest) == 0 {
			continue
		}
		cand := f[0] + " " + f[1] + " " + strings.Join(rest, ",")
		if failing[cand] {
			return keyOf(cand, failing)
		}
	}
	return name
}
