// C14: every binding of every shipped symbol table denotes its namesake. The tables are parsed
// (go/parser) and every entry is judged against the go/types package loaded from GOROOT/src under the
// build context (GOOS, GOARCH) the file targets; completeness is judged against GOROOT/api/go1*.txt up to
// the file's release. Finite space, enumerated completely.
package main

import (
	"bufio"
	"fmt"
	"go/ast"
	"go/build"
	"go/constant"
	"go/parser"
	"go/token"
	"go/types"
	"os"
	"path/filepath"
	"reflect"
	"regexp"
	"runtime"
	"sort"
	"strconv"
	"strings"

	"github.com/traefik/yaegi/stdlib"
	"verif/engine/par"
	"verif/engine/report"
)

var repo = func() string {
	if r := os.Getenv("VERIF_REPO"); r != "" {
		return r
	}
	return "/repo"
}()

// ---- source importer with explicit build context ----

type srcImporter struct {
	ctx  build.Context
	fset *token.FileSet
	pkgs map[string]*types.Package
}

func newImporter(goos, goarch string) *srcImporter {
	ctx := build.Default
	ctx.GOOS, ctx.GOARCH, ctx.CgoEnabled = goos, goarch, false
	ctx.GOPATH = ""
	return &srcImporter{ctx: ctx, fset: token.NewFileSet(), pkgs: map[string]*types.Package{}}
}

func (m *srcImporter) Import(path string) (*types.Package, error) { return m.ImportFrom(path, "", 0) }

func (m *srcImporter) ImportFrom(path, dir string, _ types.ImportMode) (*types.Package, error) {
	if path == "unsafe" {
		return types.Unsafe, nil
	}
	if p := m.pkgs[path]; p != nil {
		return p, nil
	}
	bp, err := m.ctx.Import(path, dir, 0)
	if err != nil {
		return nil, err
	}
	if p := m.pkgs[bp.ImportPath]; p != nil {
		return p, nil
	}
	var files []*ast.File
	for _, f := range bp.GoFiles {
		af, err := parser.ParseFile(m.fset, filepath.Join(bp.Dir, f), nil, parser.SkipObjectResolution)
		if err != nil {
			return nil, err
		}
		files = append(files, af)
	}
	conf := types.Config{Importer: m, FakeImportC: true, Sizes: types.SizesFor("gc", m.ctx.GOARCH), Error: func(err error) {}}
	p, _ := conf.Check(bp.ImportPath, m.fset, files, nil)
	m.pkgs[bp.ImportPath] = p
	m.pkgs[path] = p
	return p, nil
}

// ---- table files ----

type tableFile struct {
	Path    string
	Dir     string // stdlib | syscall | unrestricted | unsafe
	Release int    // 21 | 22
	GOOS    string
	GOARCH  string
}

var platRe = regexp.MustCompile(`^go1_(\d+)_syscall_([a-z0-9]+)_([a-z0-9]+)\.go$`)
var relRe = regexp.MustCompile(`^go1_(\d+)_`)

func listFiles() []tableFile {
	var out []tableFile
	for _, d := range []struct{ sub, name string }{{"", "stdlib"}, {"syscall", "syscall"}, {"unrestricted", "unrestricted"}, {"unsafe", "unsafe"}} {
		ents, err := os.ReadDir(filepath.Join(repo, "stdlib", d.sub))
		if err != nil {
			fmt.Fprintln(os.Stderr, "HARNESS-ERROR:", err)
			os.Exit(3)
		}
		for _, e := range ents {
			m := relRe.FindStringSubmatch(e.Name())
			if e.IsDir() || m == nil {
				continue
			}
			tf := tableFile{Path: filepath.Join(repo, "stdlib", d.sub, e.Name()), Dir: d.name, GOOS: "linux", GOARCH: "amd64"}
			tf.Release, _ = strconv.Atoi(m[1])
			if pm := platRe.FindStringSubmatch(e.Name()); pm != nil {
				tf.GOOS, tf.GOARCH = pm[2], pm[3]
			}
			out = append(out, tf)
		}
	}
	sort.Slice(out, func(i, j int) bool { return out[i].Path < out[j].Path })
	return out
}

// documented restricted replacements: (package path, name) -> identifier bound instead
var replacements = map[string]string{
	"os.Exit": "osExit", "os.FindProcess": "osFindProcess",
	"log.Fatal": "logFatal", "log.Fatalf": "logFatalf", "log.Fatalln": "logFatalln", "log.New": "logNew", "log.Logger": "logLogger",
}

type problem struct {
	File  string `json:"file"`
	Pkg   string `json:"package"`
	Name  string `json:"name"`
	Kind  string `json:"kind"`
	What  string `json:"what"`
	Plat  string `json:"platform"`
	Value string `json:"value,omitempty"`
}

type fileResult struct {
	Problems []problem      `json:"problems,omitempty"`
	Counts   map[string]int `json:"counts"`
	Floats   []problem      `json:"rounded_floats,omitempty"`
}

// ---- api files ----

type apiName struct{ kind string }

var apiCache = map[string]map[string]map[string]bool{} // release -> platform key -> "pkg\x00Name" set

var apiLine = regexp.MustCompile(`^pkg ([^ ,]+)( \(([^)]+)\))?, (const|var|func|type) ([A-Za-z_][A-Za-z0-9_]*)(.?)`)

// apiNames returns the exported non-generic package-level names of pkg declared up to go1.<release>
// for the platform (unqualified lines + lines qualified with exactly goos-goarch).
func apiNames(pkg string, release int, goos, goarch string) map[string]bool {
	names := map[string]bool{}
	goroot := runtime.GOROOT()
	for r := 0; r <= release; r++ {
		fn := fmt.Sprintf("go1.%d.txt", r)
		if r == 0 {
			fn = "go1.txt"
		}
		f, err := os.Open(filepath.Join(goroot, "api", fn))
		if err != nil {
			continue
		}
		sc := bufio.NewScanner(f)
		sc.Buffer(make([]byte, 1<<20), 1<<20)
		for sc.Scan() {
			l := sc.Text()
			if !strings.HasPrefix(l, "pkg "+pkg) {
				continue
			}
			m := apiLine.FindStringSubmatch(l)
			if m == nil || m[1] != pkg {
				continue
			}
			if m[3] != "" && m[3] != goos+"-"+goarch {
				continue
			}
			if m[6] == "[" {
				continue // generic function or type
			}
			if m[4] == "type" && strings.Contains(l, "type "+m[5]+"[") {
				continue
			}
			names[m[5]] = true
		}
		f.Close()
	}
	return names
}

var methodCache = map[string]map[string]bool{}

// apiHasMethod: is method m of interface pkg.iface declared by an api file up to go1.<release>?
// (interfaces whose methods are listed nowhere, e.g. embedded-only ones, are not filtered).
func apiHasMethod(pkg, iface, m string, release int) bool {
	key := fmt.Sprintf("%s.%s@%d", pkg, iface, release)
	set, ok := methodCache[key]
	if !ok {
		set = map[string]bool{}
		later := map[string]bool{}
		goroot := runtime.GOROOT()
		for r := 0; r <= 40; r++ {
			fn := fmt.Sprintf("go1.%d.txt", r)
			if r == 0 {
				fn = "go1.txt"
			}
			b, err := os.ReadFile(filepath.Join(goroot, "api", fn))
			if err != nil {
				continue
			}
			prefix := "pkg " + pkg + ", type " + iface + " interface, "
			for _, l := range strings.Split(string(b), "\n") {
				if strings.HasPrefix(l, prefix) {
					name := strings.TrimPrefix(l, prefix)
					if i := strings.IndexAny(name, "( "); i >= 0 {
						name = name[:i]
					}
					if r <= release {
						set[name] = true
					} else {
						later["later:"+name] = true
					}
				}
			}
		}
		for k := range later {
			set[k] = true
		}
		methodCache[key] = set
	}
	if set["later:"+m] && !set[m] {
		return false
	}
	return true
}

// ---- checking one table file ----

func checkFile(tf tableFile, imp *srcImporter) fileResult {
	res := fileResult{Counts: map[string]int{}}
	base := filepath.Base(tf.Path)
	plat := tf.GOOS + "/" + tf.GOARCH
	bad := func(pkg, name, kind, what, val string) {
		res.Problems = append(res.Problems, problem{File: base, Pkg: pkg, Name: name, Kind: kind, What: what, Plat: plat, Value: val})
	}
	fset := token.NewFileSet()
	f, err := parser.ParseFile(fset, tf.Path, nil, parser.ParseComments|parser.SkipObjectResolution)
	if err != nil {
		bad("", "", "file", "does not parse: "+err.Error(), "")
		return res
	}
	imports := map[string]string{} // local name -> path
	for _, is := range f.Imports {
		p, _ := strconv.Unquote(is.Path.Value)
		n := p[strings.LastIndex(p, "/")+1:]
		if is.Name != nil {
			n = is.Name.Name
		}
		imports[n] = p
	}
	wrappers := map[string]*ast.StructType{}
	methods := map[string][]*ast.FuncDecl{}
	var tables []*ast.AssignStmt
	for _, d := range f.Decls {
		switch x := d.(type) {
		case *ast.GenDecl:
			for _, s := range x.Specs {
				if ts, ok := s.(*ast.TypeSpec); ok && strings.HasPrefix(ts.Name.Name, "_") {
					if st, ok := ts.Type.(*ast.StructType); ok {
						wrappers[ts.Name.Name] = st
					}
				}
			}
		case *ast.FuncDecl:
			if x.Recv != nil && len(x.Recv.List) == 1 {
				if id, ok := x.Recv.List[0].Type.(*ast.Ident); ok {
					methods[id.Name] = append(methods[id.Name], x)
				}
			}
			if x.Recv == nil && x.Name.Name == "init" {
				for _, st := range x.Body.List {
					if as, ok := st.(*ast.AssignStmt); ok {
						tables = append(tables, as)
					}
				}
			}
		}
	}
	for _, as := range tables {
		ix, ok := as.Lhs[0].(*ast.IndexExpr)
		if !ok {
			continue
		}
		lit, ok := ix.Index.(*ast.BasicLit)
		if !ok {
			continue
		}
		key, _ := strconv.Unquote(lit.Value) // "os/os"
		pkgPath := key[:strings.LastIndex(key, "/")]
		cl, ok := as.Rhs[0].(*ast.CompositeLit)
		if !ok {
			bad(pkgPath, "", "table", "unexpected table form", "")
			continue
		}
		pkg, err := imp.Import(pkgPath)
		if err != nil || pkg == nil {
			bad(pkgPath, "", "table", fmt.Sprint("cannot load reference package: ", err), "")
			continue
		}
		res.Counts["tables"]++
		keys := map[string]bool{}
		for _, el := range cl.Elts {
			kv := el.(*ast.KeyValueExpr)
			name, _ := strconv.Unquote(kv.Key.(*ast.BasicLit).Value)
			keys[name] = true
			res.Counts["entries"]++
			checkEntry(tf, &res, bad, pkgPath, pkg, imports, name, kv.Value, wrappers, methods)
		}
		// completeness against the api files of the targeted release
		want := apiNames(pkgPath, tf.Release, tf.GOOS, tf.GOARCH)
		for n := range want {
			res.Counts["api_names_required"]++
			if !keys[n] {
				// an api name that the installed sources no longer export at package level for this platform is not demanded
				o := pkg.Scope().Lookup(n)
				if o == nil {
					res.Counts["api_names_absent_from_installed_sources"]++
					continue
				}
				if tn, ok := o.(*types.TypeName); ok {
					if it, ok := tn.Type().Underlying().(*types.Interface); ok && !it.IsMethodSet() {
						res.Counts["constraint_interfaces_not_bindable"]++
						continue
					}
				}
				if pkgPath == "syscall" && tf.Dir == "syscall" {
					// the syscall table is split: process-control entries live in the unrestricted table
					res.Counts["syscall_names_left_to_unrestricted"]++
					continue
				}
				if pkgPath == "syscall" && tf.Dir == "unrestricted" {
					continue
				}
				bad(pkgPath, n, "missing", "exported object declared by go1."+strconv.Itoa(tf.Release)+" api is not in the table", "")
			}
		}
	}
	return res
}

func importsPath(imports map[string]string, path string) bool {
	for _, p := range imports {
		if p == path {
			return true
		}
	}
	return false
}

func selector(e ast.Expr) (string, string, bool) {
	if s, ok := e.(*ast.SelectorExpr); ok {
		if id, ok := s.X.(*ast.Ident); ok {
			return id.Name, s.Sel.Name, true
		}
	}
	return "", "", false
}

func checkEntry(tf tableFile, res *fileResult, bad func(pkg, name, kind, what, val string), pkgPath string, pkg *types.Package, imports map[string]string, name string, v ast.Expr, wrappers map[string]*ast.StructType, methods map[string][]*ast.FuncDecl) {
	// unwrap reflect.ValueOf(X) [.Elem()]
	elem := false
	call, ok := v.(*ast.CallExpr)
	if ok {
		if q, s, ok2 := selector(call.Fun); ok2 && q != "reflect" && s == "Elem" {
			_ = q
		}
		if se, ok2 := call.Fun.(*ast.SelectorExpr); ok2 && se.Sel.Name == "Elem" {
			if inner, ok3 := se.X.(*ast.CallExpr); ok3 {
				elem = true
				call = inner
			}
		}
	}
	if !ok || len(call.Args) != 1 {
		bad(pkgPath, name, "form", "entry is not reflect.ValueOf(...)", "")
		return
	}
	if q, s, ok := selector(call.Fun); !ok || q != "reflect" || s != "ValueOf" {
		bad(pkgPath, name, "form", "entry is not reflect.ValueOf(...)", "")
		return
	}
	arg := call.Args[0]
	short := pkgPath[strings.LastIndex(pkgPath, "/")+1:]
	qualOK := func(q string) bool { return imports[q] == pkgPath || (imports[q] == "" && q == pkg.Name() && importsPath(imports, pkgPath)) }
	lookup := func(n string) types.Object {
		o := pkg.Scope().Lookup(n)
		if o == nil || !o.Exported() {
			return nil
		}
		return o
	}
	// wrapper entries "_I"
	if strings.HasPrefix(name, "_") {
		res.Counts["wrappers"]++
		checkWrapper(tf.Release, res, bad, pkgPath, pkg, short, name, arg, wrappers, methods)
		return
	}
	// documented replacements
	if repl, ok := replacements[short+"."+name]; ok && pkgPath == short {
		got := ""
		switch x := arg.(type) {
		case *ast.Ident:
			got = x.Name
		case *ast.CallExpr: // (*logLogger)(nil)
			if p, ok := x.Fun.(*ast.ParenExpr); ok {
				if st, ok := p.X.(*ast.StarExpr); ok {
					if id, ok := st.X.(*ast.Ident); ok {
						got = id.Name
					}
				}
			}
		}
		res.Counts["documented_replacements"]++
		if got != repl {
			bad(pkgPath, name, "replacement", "documented restricted replacement "+repl+" expected, table binds "+exprString(arg), "")
		}
		return
	}
	switch x := arg.(type) {
	case *ast.UnaryExpr: // &pkg.V  (must be followed by .Elem())
		q, s, ok := selector(x.X)
		if !ok || x.Op != token.AND || !elem {
			bad(pkgPath, name, "form", "unexpected variable form "+exprString(arg), "")
			return
		}
		res.Counts["vars"]++
		if s != name || !qualOK(q) {
			bad(pkgPath, name, "var", "bound to "+q+"."+s, "")
			return
		}
		if o, ok := lookup(name).(*types.Var); !ok || o == nil {
			bad(pkgPath, name, "var", "reference package has no exported variable of this name", "")
		}
	case *ast.SelectorExpr: // pkg.F or typed constant pkg.C
		q, s, _ := selector(x)
		res.Counts["funcs_and_typed_consts"]++
		if s != name || !qualOK(q) || elem {
			bad(pkgPath, name, "func", "bound to "+q+"."+s, "")
			return
		}
		switch o := lookup(name).(type) {
		case *types.Func:
		case *types.Const:
			if b, ok := o.Type().Underlying().(*types.Basic); ok && b.Info()&types.IsUntyped != 0 && b.Kind() != types.UntypedBool {
				bad(pkgPath, name, "const", "untyped constant bound by value (loses its untypedness)", "")
			}
		default:
			bad(pkgPath, name, "func", "reference package has no exported function or typed constant of this name", "")
		}
	case *ast.CallExpr:
		// (*pkg.T)(nil)  or  constant.MakeFromLiteral(lit, token.K, 0)
		if p, ok := x.Fun.(*ast.ParenExpr); ok {
			st, ok := p.X.(*ast.StarExpr)
			if !ok {
				bad(pkgPath, name, "form", "unexpected type form", "")
				return
			}
			q, s, ok := selector(st.X)
			res.Counts["types"]++
			if !ok || s != name || !qualOK(q) {
				bad(pkgPath, name, "type", "bound to "+exprString(st.X), "")
				return
			}
			if o, ok := lookup(name).(*types.TypeName); !ok || o == nil {
				bad(pkgPath, name, "type", "reference package has no exported type of this name", "")
			}
			return
		}
		if q, s, ok := selector(x.Fun); ok && q == "constant" && s == "MakeFromLiteral" && len(x.Args) == 3 {
			res.Counts["consts"]++
			lit, _ := strconv.Unquote(x.Args[0].(*ast.BasicLit).Value)
			_, tk, _ := selector(x.Args[1])
			tokKind := map[string]token.Token{"INT": token.INT, "FLOAT": token.FLOAT, "IMAG": token.IMAG, "CHAR": token.CHAR, "STRING": token.STRING}[tk]
			val := constant.MakeFromLiteral(lit, tokKind, 0)
			o, ok := lookup(name).(*types.Const)
			if !ok || o == nil {
				bad(pkgPath, name, "const", "reference package has no exported constant of this name", lit)
				return
			}
			if val.Kind() == constant.Unknown {
				bad(pkgPath, name, "const", "literal does not parse as "+tk, lit)
				return
			}
			if !constant.Compare(val, token.EQL, o.Val()) {
				what := "value differs from the reference: table " + short4(val.ExactString()) + " reference " + short4(o.Val().ExactString())
				p := problem{File: filepath.Base(tf.Path), Pkg: pkgPath, Name: name, Kind: "const", What: what, Plat: tf.GOOS + "/" + tf.GOARCH, Value: lit}
				// non-dyadic float constants are stored as the decimal expansion of a binary rounding (generator design):
				// recognised when the table value equals the reference rounded to a big.Float of the generator's precision
				if tk == "FLOAT" && roundedEqual(val, o.Val()) {
					res.Floats = append(res.Floats, p)
					return
				}
				res.Problems = append(res.Problems, p)
			}
			return
		}
		bad(pkgPath, name, "form", "unexpected entry form "+exprString(arg), "")
	default:
		bad(pkgPath, name, "form", "unexpected entry form "+exprString(arg), "")
	}
}

func short4(s string) string {
	if len(s) > 60 {
		return s[:28] + "…" + s[len(s)-28:]
	}
	return s
}

// roundedEqual: table value == reference value rounded to float precision 512 bits or less (relative error < 2^-200).
func roundedEqual(table, ref constant.Value) bool {
	d := constant.BinaryOp(table, token.SUB, ref)
	if constant.Sign(d) < 0 {
		d = constant.UnaryOp(token.SUB, d, 0)
	}
	a := ref
	if constant.Sign(a) < 0 {
		a = constant.UnaryOp(token.SUB, a, 0)
	}
	bound := constant.BinaryOp(a, token.QUO, constant.Shift(constant.MakeInt64(1), token.SHL, 200))
	return constant.Compare(d, token.LSS, bound)
}

func exprString(e ast.Expr) string {
	switch x := e.(type) {
	case *ast.Ident:
		return x.Name
	case *ast.SelectorExpr:
		return exprString(x.X) + "." + x.Sel.Name
	case *ast.StarExpr:
		return "*" + exprString(x.X)
	case *ast.UnaryExpr:
		return x.Op.String() + exprString(x.X)
	case *ast.ParenExpr:
		return "(" + exprString(x.X) + ")"
	case *ast.CallExpr:
		return exprString(x.Fun) + "(…)"
	}
	return fmt.Sprintf("%T", e)
}

// checkWrapper: "_I": reflect.ValueOf((*_pkg_I)(nil)); struct _pkg_I{IValue; W<M> func...}; one method per
// interface method, same parameter/variadic/result lists, body forwards to the field of the same name.
func checkWrapper(release int, res *fileResult, bad func(pkg, name, kind, what, val string), pkgPath string, pkg *types.Package, short, name string, arg ast.Expr, wrappers map[string]*ast.StructType, methods map[string][]*ast.FuncDecl) {
	iname := name[1:]
	wname := ""
	if c, ok := arg.(*ast.CallExpr); ok {
		if p, ok := c.Fun.(*ast.ParenExpr); ok {
			if st, ok := p.X.(*ast.StarExpr); ok {
				if id, ok := st.X.(*ast.Ident); ok {
					wname = id.Name
				}
			}
		}
	}
	st := wrappers[wname]
	if st == nil {
		bad(pkgPath, name, "wrapper", "wrapper type "+wname+" not declared in the file", "")
		return
	}
	tn, ok := pkg.Scope().Lookup(iname).(*types.TypeName)
	if !ok {
		bad(pkgPath, name, "wrapper", "reference package has no type "+iname, "")
		return
	}
	it, ok := tn.Type().Underlying().(*types.Interface)
	if !ok {
		bad(pkgPath, name, "wrapper", iname+" is not an interface in the reference package", "")
		return
	}
	fields := map[string]*ast.FuncType{}
	for _, fl := range st.Fields.List {
		for _, n := range fl.Names {
			if ft, ok := fl.Type.(*ast.FuncType); ok {
				fields[n.Name] = ft
			}
		}
	}
	ms := map[string]*ast.FuncDecl{}
	for _, m := range methods[wname] {
		ms[m.Name.Name] = m
	}
	for i := 0; i < it.NumMethods(); i++ {
		m := it.Method(i)
		if !m.Exported() {
			continue
		}
		if !apiHasMethod(pkgPath, iname, m.Name(), release) {
			res.Counts["interface_methods_newer_than_release"]++
			continue
		}
		res.Counts["wrapper_methods"]++
		sig := m.Type().(*types.Signature)
		fd := ms[m.Name()]
		ft := fields["W"+m.Name()]
		if fd == nil || ft == nil {
			bad(pkgPath, name, "wrapper", "interface method "+m.Name()+" has no wrapper method or no W"+m.Name()+" field", "")
			continue
		}
		if !sameShape(fd.Type, sig) || !sameShape(ft, sig) {
			bad(pkgPath, name, "wrapper", "method "+m.Name()+": parameter/result lists differ from the interface ("+sig.String()+")", "")
			continue
		}
		// body: last statement calls W.W<Name>(params...) with ... on a variadic parameter
		if !forwards(fd, "W"+m.Name(), sig.Variadic()) {
			bad(pkgPath, name, "wrapper", "method "+m.Name()+" does not forward all its arguments to W.W"+m.Name(), "")
		}
	}
	for n := range ms {
		found := false
		for i := 0; i < it.NumMethods(); i++ {
			if it.Method(i).Name() == n {
				found = true
			}
		}
		if !found {
			bad(pkgPath, name, "wrapper", "wrapper has method "+n+" that the interface does not declare", "")
		}
	}
}

// sameShape compares arity, variadic-ness and the spelled types (base identifiers) of an AST signature with a types.Signature.
func sameShape(ft *ast.FuncType, sig *types.Signature) bool {
	count := func(fl *ast.FieldList) (n int, last ast.Expr, all []ast.Expr) {
		if fl == nil {
			return
		}
		for _, f := range fl.List {
			k := len(f.Names)
			if k == 0 {
				k = 1
			}
			for i := 0; i < k; i++ {
				all = append(all, f.Type)
			}
			n += k
			last = f.Type
		}
		return
	}
	np, lastP, ptypes := count(ft.Params)
	nr, _, rtypes := count(ft.Results)
	if np != sig.Params().Len() || nr != sig.Results().Len() {
		return false
	}
	_, isEll := lastP.(*ast.Ellipsis)
	if isEll != sig.Variadic() {
		return false
	}
	cmp := func(es []ast.Expr, tup *types.Tuple) bool {
		for i, e := range es {
			if baseName(e) != typeBase(tup.At(i).Type()) {
				return false
			}
		}
		return true
	}
	return cmp(ptypes, sig.Params()) && cmp(rtypes, sig.Results())
}

// baseName / typeBase reduce a type to a comparable spelling: kind prefix + innermost named/basic identifier.
func baseName(e ast.Expr) string {
	switch x := e.(type) {
	case *ast.Ident:
		switch x.Name {
		case "any":
			return "interface"
		case "byte":
			return "uint8"
		case "rune":
			return "int32"
		}
		return x.Name
	case *ast.SelectorExpr:
		return x.Sel.Name
	case *ast.StarExpr:
		return "*" + baseName(x.X)
	case *ast.ArrayType:
		if x.Len == nil {
			return "[]" + baseName(x.Elt)
		}
		return "[n]" + baseName(x.Elt)
	case *ast.Ellipsis:
		return "[]" + baseName(x.Elt)
	case *ast.MapType:
		return "map[" + baseName(x.Key) + "]" + baseName(x.Value)
	case *ast.ChanType:
		return "chan " + baseName(x.Value)
	case *ast.FuncType:
		return "func"
	case *ast.InterfaceType:
		return "interface"
	case *ast.StructType:
		return "struct"
	case *ast.IndexExpr:
		return baseName(x.X)
	}
	return "?"
}

func typeBase(t types.Type) string {
	switch x := t.(type) {
	case *types.Basic:
		n := x.Name()
		if n == "byte" {
			return "uint8"
		}
		if n == "rune" {
			return "int32"
		}
		return n
	case *types.Named:
		return x.Obj().Name()
	case *types.Alias:
		if x.Obj().Name() == "any" {
			return "interface"
		}
		return typeBase(types.Unalias(x))
	case *types.Pointer:
		return "*" + typeBase(x.Elem())
	case *types.Slice:
		return "[]" + typeBase(x.Elem())
	case *types.Array:
		return "[n]" + typeBase(x.Elem())
	case *types.Map:
		return "map[" + typeBase(x.Key()) + "]" + typeBase(x.Elem())
	case *types.Chan:
		return "chan " + typeBase(x.Elem())
	case *types.Signature:
		return "func"
	case *types.Interface:
		return "interface"
	case *types.Struct:
		return "struct"
	case *types.TypeParam:
		return x.Obj().Name()
	}
	return "?"
}

func forwards(fd *ast.FuncDecl, field string, variadic bool) bool {
	if fd.Body == nil || len(fd.Body.List) == 0 {
		return false
	}
	var params []string
	for _, f := range fd.Type.Params.List {
		for _, n := range f.Names {
			params = append(params, n.Name)
		}
	}
	last := fd.Body.List[len(fd.Body.List)-1]
	var call *ast.CallExpr
	switch s := last.(type) {
	case *ast.ReturnStmt:
		if len(s.Results) == 1 {
			call, _ = s.Results[0].(*ast.CallExpr)
		}
	case *ast.ExprStmt:
		call, _ = s.X.(*ast.CallExpr)
	}
	if call == nil {
		return false
	}
	q, s, ok := selector(call.Fun)
	if !ok || q != fd.Recv.List[0].Names[0].Name || s != field || len(call.Args) != len(params) {
		return false
	}
	for i, a := range call.Args {
		id, ok := a.(*ast.Ident)
		if !ok || id.Name != params[i] {
			return false
		}
	}
	return call.Ellipsis.IsValid() == variadic
}

// ---- main ----

type unit struct {
	Plat  string
	Files []tableFile
}

func main() {
	r := report.Start("C14", "exploration")
	os.Setenv("GO111MODULE", "off")
	files := listFiles()
	// work units: one per syscall platform; the platform-independent tables in chunks
	byPlat := map[string][]tableFile{}
	var gen []tableFile
	for _, f := range files {
		if platRe.MatchString(filepath.Base(f.Path)) {
			byPlat[f.GOOS+"/"+f.GOARCH] = append(byPlat[f.GOOS+"/"+f.GOARCH], f)
		} else {
			gen = append(gen, f)
		}
	}
	var units []unit
	var plats []string
	for p := range byPlat {
		plats = append(plats, p)
	}
	sort.Strings(plats)
	for _, p := range plats {
		units = append(units, unit{p, byPlat[p]})
	}
	const chunk = 24
	for i := 0; i < len(gen); i += chunk {
		j := i + chunk
		if j > len(gen) {
			j = len(gen)
		}
		units = append(units, unit{"linux/amd64", gen[i:j]})
	}
	if r.Replay != "" {
		fmt.Println("C14 has no per-case replay beyond re-running the whole (finite) table check: ./check C14")
		os.Exit(0)
	}
	res := par.Map(len(units), func(i int) *fileResult {
		u := units[i]
		pp := strings.Split(u.Plat, "/")
		imp := newImporter(pp[0], pp[1])
		total := fileResult{Counts: map[string]int{}}
		for _, tf := range u.Files {
			fr := checkFile(tf, imp)
			total.Problems = append(total.Problems, fr.Problems...)
			total.Floats = append(total.Floats, fr.Floats...)
			for k, v := range fr.Counts {
				total.Counts[k] += v
			}
			total.Counts["files"]++
		}
		return &total
	}, par.Opts{CaseTimeout: 300 * 1e9, MemMB: -1})
	counts := map[string]int{}
	var all, floats []problem
	for _, fr := range res.Outs {
		all = append(all, fr.Problems...)
		floats = append(floats, fr.Floats...)
		for k, v := range fr.Counts {
			counts[k] += v
		}
	}
	for _, a := range res.Abnormal {
		r.HarnessError("unit %s: worker %s: %s", units[a.Idx].Plat, a.Kind, a.Log)
	}
	// release drift: a constant whose go1_21 entry differs from the installed (1.23) sources while the go1_22 entry of
	// the same platform agrees cannot be decided here (no 1.21 sources): reported as undecided, not as a violation
	agree22 := map[string]bool{}
	differ := map[string]bool{}
	for _, p := range all {
		if p.Kind == "const" && strings.HasPrefix(p.File, "go1_22_") {
			differ[p.Plat+p.Pkg+p.Name] = true
		}
	}
	_ = agree22
	undecided := 0
	for _, p := range all {
		if p.Kind == "const" && strings.HasPrefix(p.File, "go1_21_") && !differ[p.Plat+p.Pkg+p.Name] && strings.HasPrefix(p.What, "value differs") {
			undecided++
			continue
		}
		key := p.Pkg + "." + p.Name + " [" + p.Kind + "] " + verOf(p.File) + " " + platKey(p)
		r.Fail(report.Failure{Key: key, What: p.File + ": " + p.Pkg + "." + p.Name + ": " + p.What, Case: p})
	}
	// the rounded float constants form one named finding listing each entry
	if len(floats) > 0 {
		names := map[string]bool{}
		for _, p := range floats {
			names[p.Pkg+"."+p.Name] = true
		}
		var nl []string
		for n := range names {
			nl = append(nl, n)
		}
		sort.Strings(nl)
		for _, p := range floats {
			r.Fail(report.Failure{Key: "rounded-float-constants: " + strings.Join(nl, " "), What: p.File + ": " + p.Pkg + "." + p.Name + " is the decimal expansion of a binary rounding, not exactly the declared constant", Case: p})
		}
	}
	// run-time cross-check on the running platform: kind of every compiled-in binding
	rt, rtBad := 0, 0
	for pk, tab := range stdlib.Symbols {
		for n, v := range tab {
			rt++
			if !v.IsValid() {
				rtBad++
				r.Fail(report.Failure{Key: "runtime " + pk + "." + n, What: "compiled-in binding " + pk + "." + n + " is an invalid reflect.Value", Case: problem{Pkg: pk, Name: n}})
				continue
			}
			if v.Kind() == reflect.Ptr && v.IsNil() && v.Type().Elem().Kind() == reflect.Interface && !strings.HasPrefix(n, "_") {
				// (*T)(nil) for interface types is legitimate; nothing to check
				continue
			}
		}
	}
	counts["runtime_bindings_checked"] = rt
	r.Set("evaluations", counts["entries"])
	r.Set("distinct_nontrivial", counts["entries"])
	for k, v := range counts {
		r.Set("n_"+k, v)
	}
	r.Set("undecided_release_drift_go1_21_only", undecided)
	r.Set("rounded_float_entries", len(floats))
	r.Set("platforms", len(plats)+1)
	r.Set("exhaustive", len(res.Abnormal) == 0)
	r.Set("rule", "every entry of every generated table file (stdlib/go1_21_*, go1_22_*, syscall, unrestricted, unsafe; all platforms): key == selector name, qualifier == package, object kind matches the entry form, untyped constants equal the reference value exactly (go/constant), the 7 documented replacements exactly, wrappers complete with matching signatures and forwarding bodies, api/go1*.txt names up to the file's release present; each entry is a distinct case")
	r.Assumptions = []string{"reference = go/types packages loaded from the installed GOROOT/src (go1.23) under the file's GOOS/GOARCH, cgo off", "presence judged against GOROOT/api up to the file's release; values that differ only in go1_21 files are release drift this sandbox cannot decide (no 1.21 sources)"}
	r.Sample(map[string]interface{}{"file": "go1_22_os.go", "entry": "\"Chdir\": reflect.ValueOf(os.Chdir)", "reference": "func os.Chdir(dir string) error"})
	r.Sample(map[string]interface{}{"file": "go1_22_math.go", "entry": "\"MaxInt64\": constant.MakeFromLiteral(\"9223372036854775807\", token.INT, 0)"})
	r.Finish()
}

func verOf(file string) string {
	if m := relRe.FindStringSubmatch(file); m != nil {
		return "go1." + m[1]
	}
	return ""
}

func platKey(p problem) string {
	if platRe.MatchString(p.File) {
		return p.Plat
	}
	return "any"
}
