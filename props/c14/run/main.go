// C14: every binding of every shipped symbol table denotes its namesake. The tables are parsed
// (go/parser) and every entry is judged against the go/types package loaded from GOROOT/src under the
// build context (GOOS, GOARCH) the file targets; completeness is judged against GOROOT/api/go1*.txt up to
// the file's release. Finite space, enumerated completely.
package main

import (
	"fmt"
	"os"
	"path/filepath"
	"reflect"
	"sort"
	"strings"

	"github.com/traefik/yaegi/stdlib"
	"verif/engine/par"
	"verif/engine/report"
	"verif/engine/tablecheck"
)

// ---- main ----

type unit struct {
	Plat  string
	Files []tablecheck.TableFile
}

func main() {
	r := report.Start("C14", "exploration")
	os.Setenv("GO111MODULE", "off")
	files := tablecheck.ListFiles()
	// work units: one per syscall platform; the platform-independent tables in chunks
	byPlat := map[string][]tablecheck.TableFile{}
	var gen []tablecheck.TableFile
	for _, f := range files {
		if tablecheck.PlatRe.MatchString(filepath.Base(f.Path)) {
			byPlat[f.GOOS+"/"+f.GOARCH] = append(byPlat[f.GOOS+"/"+f.GOARCH], f)
		} else {
			gen = append(gen, f)
		}
	}
	var units []unit
	var plats []string
	for p := range byPlat {
		plats = append(plats, p)
	}
	sort.Strings(plats)
	for _, p := range plats {
		units = append(units, unit{p, byPlat[p]})
	}
	const chunk = 24
	for i := 0; i < len(gen); i += chunk {
		j := i + chunk
		if j > len(gen) {
			j = len(gen)
		}
		units = append(units, unit{"linux/amd64", gen[i:j]})
	}
	if r.Replay != "" {
		fmt.Println("C14 has no per-case replay beyond re-running the whole (finite) table check: ./check C14")
		os.Exit(0)
	}
	res := par.Map(len(units), func(i int) *tablecheck.FileResult {
		u := units[i]
		pp := strings.Split(u.Plat, "/")
		imp := tablecheck.NewImporter(pp[0], pp[1])
		total := tablecheck.FileResult{Counts: map[string]int{}}
		for _, tf := range u.Files {
			fr := tablecheck.CheckFile(tf, imp)
			total.Problems = append(total.Problems, fr.Problems...)
			total.Floats = append(total.Floats, fr.Floats...)
			for k, v := range fr.Counts {
				total.Counts[k] += v
			}
			total.Counts["files"]++
		}
		return &total
	}, par.Opts{CaseTimeout: 300 * 1e9, MemMB: -1})
	counts := map[string]int{}
	var all, floats []tablecheck.Problem
	for _, fr := range res.Outs {
		all = append(all, fr.Problems...)
		floats = append(floats, fr.Floats...)
		for k, v := range fr.Counts {
			counts[k] += v
		}
	}
	for _, a := range res.Abnormal {
		r.HarnessError("unit %s: worker %s: %s", units[a.Idx].Plat, a.Kind, a.Log)
	}
	// release drift: a constant whose go1_21 entry differs from the installed (1.23) sources while the go1_22 entry of
	// the same platform agrees cannot be decided here (no 1.21 sources): reported as undecided, not as a violation
	agree22 := map[string]bool{}
	differ := map[string]bool{}
	for _, p := range all {
		if p.Kind == "const" && strings.HasPrefix(p.File, "go1_22_") {
			differ[p.Plat+p.Pkg+p.Name] = true
		}
	}
	_ = agree22
	undecided := 0
	for _, p := range all {
		if p.Kind == "const" && strings.HasPrefix(p.File, "go1_21_") && !differ[p.Plat+p.Pkg+p.Name] && strings.HasPrefix(p.What, "value differs") {
			undecided++
			continue
		}
		key := p.Pkg + "." + p.Name + " [" + p.Kind + "] " + verOf(p.File) + " " + platKey(p)
		r.Fail(report.Failure{Key: key, What: p.File + ": " + p.Pkg + "." + p.Name + ": " + p.What, Case: p})
	}
	// the rounded float constants form one named finding listing each entry
	if len(floats) > 0 {
		names := map[string]bool{}
		for _, p := range floats {
			names[p.Pkg+"."+p.Name] = true
		}
		var nl []string
		for n := range names {
			nl = append(nl, n)
		}
		sort.Strings(nl)
		for _, p := range floats {
			r.Fail(report.Failure{Key: "rounded-float-constants: " + strings.Join(nl, " "), What: p.File + ": " + p.Pkg + "." + p.Name + " is the decimal expansion of a binary rounding, not exactly the declared constant", Case: p})
		}
	}
	// run-time cross-check on the running platform: kind of every compiled-in binding
	rt, rtBad := 0, 0
	for pk, tab := range stdlib.Symbols {
		for n, v := range tab {
			rt++
			if !v.IsValid() {
				rtBad++
				r.Fail(report.Failure{Key: "runtime " + pk + "." + n, What: "compiled-in binding " + pk + "." + n + " is an invalid reflect.Value", Case: tablecheck.Problem{Pkg: pk, Name: n}})
				continue
			}
			if v.Kind() == reflect.Ptr && v.IsNil() && v.Type().Elem().Kind() == reflect.Interface && !strings.HasPrefix(n, "_") {
				// (*T)(nil) for interface types is legitimate; nothing to check
				continue
			}
		}
	}
	counts["runtime_bindings_checked"] = rt
	r.Set("evaluations", counts["entries"])
	r.Set("distinct_nontrivial", counts["entries"])
	for k, v := range counts {
		r.Set("n_"+k, v)
	}
	r.Set("undecided_release_drift_go1_21_only", undecided)
	r.Set("rounded_float_entries", len(floats))
	r.Set("platforms", len(plats)+1)
	r.Set("exhaustive", len(res.Abnormal) == 0)
	r.Set("rule", "every entry of every generated table file (stdlib/go1_21_*, go1_22_*, syscall, unrestricted, unsafe; all platforms): key == selector name, qualifier == package, object kind matches the entry form, untyped constants equal the reference value exactly (go/constant), the 7 documented replacements exactly, wrappers complete with matching signatures and forwarding bodies, api/go1*.txt names up to the file's release present; each entry is a distinct case")
	r.Assumptions = []string{"reference = go/types packages loaded from the installed GOROOT/src (go1.23) under the file's GOOS/GOARCH, cgo off", "presence judged against GOROOT/api up to the file's release; values that differ only in go1_21 files are release drift this sandbox cannot decide (no 1.21 sources)"}
	r.Sample(map[string]interface{}{"file": "go1_22_os.go", "entry": "\"Chdir\": reflect.ValueOf(os.Chdir)", "reference": "func os.Chdir(dir string) error"})
	r.Sample(map[string]interface{}{"file": "go1_22_math.go", "entry": "\"MaxInt64\": constant.MakeFromLiteral(\"9223372036854775807\", token.INT, 0)"})
	r.Finish()
}

func verOf(file string) string {
	if m := tablecheck.RelRe.FindStringSubmatch(file); m != nil {
		return "go1." + m[1]
	}
	return ""
}

func platKey(p tablecheck.Problem) string {
	if tablecheck.PlatRe.MatchString(p.File) {
		return p.Plat
	}
	return "any"
}
