// C10: a cancelled evaluation does not damage earlier definitions. Explicit enumeration of API histories
// define* ; (use | cancelled-eval)* on a live interpreter; the oracle is differential: every use must return
// what it returns in the same history with the cancelled evaluations deleted. Cancellation points are fixed
// by the verif step hook (operation k of the cancelled evaluation), never by timers.
package main

import (
	"context"
	"fmt"
	"os"
	"reflect"
	"runtime"
	"strings"
	"sync"
	"sync/atomic"
	"time"

	"github.com/traefik/yaegi/interp"
	"verif/engine/par"
	"verif/engine/report"
)

type event struct {
	Kind string `json:"kind"` // def | use | hostuse | cancel
	Name string `json:"name"`
	Src  string `json:"src,omitempty"`
	Need string `json:"need,omitempty"`
}

var defs = []event{
	{"def", "func", "func f(a int) int { return a*2 + 1 }", ""},
	{"def", "method", "type T struct{ N int }\n\nfunc (t T) M(a int) int { return t.N + a }\n\nvar t = T{40}", ""},
	{"def", "closure", "func mk() func() int {\n\tc := 100\n\treturn func() int {\n\t\tc++\n\t\treturn c\n\t}\n}\n\nvar cl = mk()", ""},
	{"def", "methodvalue", "type T2 struct{ N int }\n\nfunc (t T2) M(a int) int { return t.N + a }\n\nvar t2 = T2{50}\n\nvar mv = t2.M", ""},
	{"def", "caller", "func wf() int { return f(3) + 1 }", "func"},
	{"def", "ptrmethod", "type P struct{ N int }\n\nfunc (p *P) Inc() int {\n\tp.N++\n\treturn p.N\n}\n\nvar pp = &P{7}", ""},
	{"def", "globalvar", "var g = 5\n\nfunc setG(v int) { g = v }", ""},
	{"def", "selectfn", "func sel() int {\n\tch := make(chan int, 1)\n\tch <- 5\n\tselect {\n\tcase v := <-ch:\n\t\treturn v\n\t}\n}", ""},
	{"def", "rangefn", "func rng() int {\n\tch := make(chan int, 2)\n\tch <- 1\n\tch <- 2\n\tclose(ch)\n\ts := 0\n\tfor v := range ch {\n\t\ts += v\n\t}\n\treturn s\n}", ""},
	{"def", "hostfunc", "", "func"},       // host obtains a wrapper of f
	{"def", "hostclosure", "", "closure"}, // host obtains a wrapper of cl
	{"def", "hostmethodvalue", "", "methodvalue"},
}

var uses = []event{
	{"use", "f(2)", "f(2)", "func"},
	{"use", "t.M(2)", "t.M(2)", "method"},
	{"use", "cl()", "cl()", "closure"},
	{"use", "mv(2)", "mv(2)", "methodvalue"},
	{"use", "pp.Inc()", "pp.Inc()", "ptrmethod"},
	{"use", "wf()", "wf()", "caller"},
	// statements that allocate no new package-level slot (nothing refreshes the global frame), then a read
	{"use", "setG(10);g", "setG(10) ;; g", "globalvar"},
	{"use", "g = 7;g", "g = 7 ;; g", "globalvar"},
	{"use", "g++;g", "g++ ;; g", "globalvar"},
	{"use", "g", "g", "globalvar"},
	{"use", "sel()", "sel()", "selectfn"},
	{"use", "rng()", "rng()", "rangefn"},
	{"hostuse", "host f(2)", "", "hostfunc"},
	{"hostuse", "host cl()", "", "hostclosure"},
	{"hostuse", "host mv(2)", "", "hostmethodvalue"},
}

var cancels = []event{
	{"cancel", "busy-loop@30", "for i := 0; ; i++ {\n\t_ = i * 2\n}", ""},
	{"cancel", "busy-calling-f@30", "for i := 0; ; i++ {\n\t_ = f(i)\n}", "func"},
	{"cancel", "busy-calling-closure@30", "for {\n\t_ = cl()\n}", "closure"},
	{"cancel", "blocked-recv@op", "ch := make(chan int)\n<-ch", ""},
	// An already-expired context is deliberately not in the alphabet: EvalWithContext then races interp.stop() against
	// the evaluation goroutine's run() (which re-synchronises the global frame's run id), two goroutines the harness does
	// not schedule, and the outcome of later host-wrapper uses depends on who wins (DESIGN 8.7). The deterministic
	// equivalent of the order "stop lands after run() started" is a cancel at the very first operation:
	{"cancel", "blocked-recv@first-op", "ch2 := make(chan int)\n<-ch2", ""},
	// The already-expired context itself, restricted to what does not depend on who wins the race described above: the
	// evaluated program terminates by itself, the harness lets it finish, and no host wrapper is called before the next
	// Eval (enforced in histories()). Everything else must hold in either order.
	{"cancel", "expired-context", "_ = 1 + 1", ""},
}

type history struct {
	Events []event `json:"events"`
}

func (h history) name() string {
	var n []string
	for _, e := range h.Events {
		n = append(n, e.Kind+":"+e.Name)
	}
	return strings.Join(n, " ; ")
}

// ---- execution ----

var stepCount atomic.Int64
var cancelAt atomic.Int64
var cancelFn atomic.Value // context.CancelFunc
var release chan struct{}
var relMu sync.Mutex

func hook(i *interp.Interpreter, frameID, interpID uint64) {
	n := stepCount.Add(1)
	if k := cancelAt.Load(); k > 0 && n == k {
		if c, ok := cancelFn.Load().(context.CancelFunc); ok && c != nil {
			c()
		}
		relMu.Lock()
		ch := release
		relMu.Unlock()
		if ch != nil {
			<-ch // parked until EvalWithContext has returned to the host
		}
	}
}

type result struct {
	Uses []string
	Err  string
}

func waitGoroutines(base int) {
	for t := 0; t < 400; t++ {
		if runtime.NumGoroutine() <= base {
			return
		}
		time.Sleep(500 * time.Microsecond)
	}
}

func runHistory(h history, skipCancels bool) (res result) {
	defer func() {
		if r := recover(); r != nil {
			res.Err = fmt.Sprint("HOSTPANIC: ", r)
		}
	}()
	i := interp.New(interp.Options{})
	host := map[string]reflect.Value{}
	for _, e := range h.Events {
		switch e.Kind {
		case "def":
			switch e.Name {
			case "hostfunc", "hostclosure", "hostmethodvalue":
				expr := map[string]string{"hostfunc": "f", "hostclosure": "cl", "hostmethodvalue": "mv"}[e.Name]
				v, err := i.Eval(expr)
				if err != nil {
					res.Err = "def " + e.Name + ": " + err.Error()
					return
				}
				host[e.Name] = v
			default:
				if _, err := i.Eval(e.Src); err != nil {
					res.Err = "def " + e.Name + ": " + err.Error()
					return
				}
			}
		case "use":
			var v reflect.Value
			var err error
			for _, part := range strings.Split(e.Src, " ;; ") {
				if v, err = i.Eval(part); err != nil {
					break
				}
			}
			if err != nil {
				res.Uses = append(res.Uses, e.Name+" -> ERR "+strings.SplitN(err.Error(), "\n", 2)[0])
			} else {
				res.Uses = append(res.Uses, fmt.Sprintf("%s -> %v", e.Name, v.Interface()))
			}
		case "hostuse":
			fn := host[e.Need]
			var out string
			func() {
				defer func() {
					if r := recover(); r != nil {
						out = fmt.Sprint("PANIC ", r)
					}
				}()
				var args []reflect.Value
				if fn.Type().NumIn() == 1 {
					args = []reflect.Value{reflect.ValueOf(2)}
				}
				r := fn.Call(args)
				out = fmt.Sprint(r[0].Interface())
			}()
			res.Uses = append(res.Uses, e.Name+" -> "+out)
		case "cancel":
			if skipCancels {
				continue
			}
			base := runtime.NumGoroutine()
			ctx, cancel := context.WithCancel(context.Background())
			stepCount.Store(0)
			relMu.Lock()
			release = make(chan struct{})
			rel := release
			relMu.Unlock()
			switch {
			case e.Name == "expired-context":
				cancelAt.Store(0)
				cancel()
			case strings.HasSuffix(e.Name, "@first-op"):
				cancelAt.Store(1)
				cancelFn.Store(cancel)
			case strings.HasSuffix(e.Name, "@op"):
				// the receive is the last operation of the snippet: count its operations with a dry compile is not possible,
				// so cancel at the first operation that follows the channel creation (operation 3 of this two-statement snippet)
				cancelAt.Store(3)
				cancelFn.Store(cancel)
			default:
				cancelAt.Store(30)
				cancelFn.Store(cancel)
			}
			_, err := i.EvalWithContext(ctx, e.Src)
			cancelAt.Store(0)
			close(rel)
			cancel()
			if err == nil && e.Name != "expired-context" { // an expired context and a program that is already done: either answer
				res.Err = "cancelled evaluation " + e.Name + " returned no error"
				return
			}
			waitGoroutines(base)
		}
	}
	return
}

type fail struct {
	H    history  `json:"history"`
	With []string `json:"uses_with_cancelled_evals"`
	Base []string `json:"uses_without"`
	Err  string   `json:"err"`
}

func one(h history) *fail {
	par.Count("histories", 1)
	base := runHistory(h, true)
	with := runHistory(h, false)
	par.Count("events", int64(len(h.Events)))
	par.Distinct("obs", strings.Join(base.Uses, "|"))
	if base.Err != "" {
		return &fail{H: h, Err: "HARNESS: reference history failed: " + base.Err}
	}
	if with.Err != "" {
		return &fail{H: h, With: with.Uses, Base: base.Uses, Err: with.Err}
	}
	if strings.Join(base.Uses, "|") != strings.Join(with.Uses, "|") {
		return &fail{H: h, With: with.Uses, Base: base.Uses}
	}
	return nil
}

// ---- enumeration ----

func histories(maxLen int) []history {
	var out []history
	// definition prefixes: sequences of <= 3 definitions respecting dependencies, in alphabet order
	var defSeqs [][]event
	var rec func(start int, cur []event)
	have := func(cur []event, n string) bool {
		if n == "" {
			return true
		}
		for _, e := range cur {
			if e.Name == n {
				return true
			}
		}
		return false
	}
	rec = func(start int, cur []event) {
		if len(cur) > 0 {
			defSeqs = append(defSeqs, append([]event{}, cur...))
		}
		if len(cur) == 3 {
			return
		}
		for k := start; k < len(defs); k++ {
			if have(cur, defs[k].Need) {
				rec(k+1, append(cur, defs[k]))
			}
		}
	}
	rec(0, nil)
	for _, ds := range defSeqs {
		var alphabet []event
		for _, u := range uses {
			if have(ds, u.Need) {
				alphabet = append(alphabet, u)
			}
		}
		if len(alphabet) == 0 {
			continue
		}
		for _, c := range cancels {
			if have(ds, c.Need) {
				alphabet = append(alphabet, c)
			}
		}
		var tails func(cur []event)
		tails = func(cur []event) {
			if len(cur) > 0 {
				// interesting only if a use follows a cancelled evaluation
				seenCancel, useAfter := false, false
				for _, e := range cur {
					if e.Kind == "cancel" {
						seenCancel = true
					} else if seenCancel {
						useAfter = true
					}
				}
				if useAfter {
					out = append(out, history{Events: append(append([]event{}, ds...), cur...)})
				}
			}
			if len(ds)+len(cur) >= maxLen {
				return
			}
			for _, e := range alphabet {
				if e.Kind == "hostuse" && len(cur) > 0 && cur[len(cur)-1].Name == "expired-context" {
					continue // order-dependent on the pinned tree (see the expired-context kind)
				}
				tails(append(append([]event{}, cur...), e))
			}
		}
		tails(nil)
	}
	return out
}

func main() {
	r := report.Start("C10", "model_checking")
	interp.VerifSetStep(hook)
	if r.Replay != "" {
		var cs []fail
		if err := report.ReadReplay(r.Replay, &cs); err != nil {
			fmt.Fprintln(os.Stderr, "HARNESS-ERROR:", err)
			os.Exit(3)
		}
		bad := 0
		for _, c := range cs {
			if f := one(c.H); f != nil {
				bad++
				fmt.Printf("replay %s\n without cancelled evals: %v\n with:                    %v err=%s\n", c.H.name(), f.Base, f.With, f.Err)
			} else {
				fmt.Println("replay: agrees now:", c.H.name())
			}
		}
		if bad > 0 {
			fmt.Printf("VIOLATION property=C10 replay=%s\n", r.Replay)
			os.Exit(1)
		}
		os.Exit(0)
	}
	maxLen := 5
	if r.Thorough() {
		maxLen = 6
	}
	hs := histories(maxLen)
	res := par.Map(len(hs), func(i int) *fail { return one(hs[i]) }, par.Opts{GoMaxProcs: 4})
	failing := map[string]bool{}
	for _, f := range res.Outs {
		failing[f.H.name()] = true
	}
	for _, f := range res.Outs {
		if strings.HasPrefix(f.Err, "HARNESS") {
			r.HarnessError("%s: %s", f.H.name(), f.Err)
			continue
		}
		r.Fail(report.Failure{Key: minimal(f.H, failing), What: fmt.Sprintf("%s: without cancelled evals %v, with %v %s", f.H.name(), f.Base, f.With, f.Err), Case: f})
	}
	for _, a := range res.Abnormal {
		r.Fail(report.Failure{Key: hs[a.Idx].name() + " | " + a.Kind, What: hs[a.Idx].name() + ": " + a.Kind, Case: fail{H: hs[a.Idx], Err: a.Kind}})
	}
	n := res.Counts["histories"]
	r.Set("evaluations", n)
	r.Set("states", len(res.Sets["obs"]))
	r.Set("transitions", res.Counts["events"])
	r.Set("traces_validated_against_impl", n)
	r.Set("distinct_nontrivial", len(res.Sets["obs"]))
	r.Set("max_history_length", maxLen)
	r.Set("exhaustive", true)
	r.Set("rule", "all histories define* ; (use | cancelled-eval)* with <= 3 definitions out of 12 kinds (function, method+var, closure in var, method value, pointer-receiver method, caller, package variable + setter, functions using select / range over a channel, host wrappers of function / closure / method value), uses through Eval (calls, and statements that allocate no new package-level slot followed by a read) and from the host, 5 cancelled-evaluation kinds (busy loops cancelled at operation 30 by the step hook, blocked receive cancelled at the receive and at the first operation, already-expired context with a terminating program and no host call before the next Eval), total length <= the bound, containing a use after a cancelled evaluation; states = distinct reference observation vectors")
	r.Assumptions = []string{"oracle = the same history without the cancelled evaluations", "the cancelled evaluation's goroutine is allowed to finish before the next event (waits for the goroutine count to settle, not an oracle)"}
	for _, i := range []int{0, len(hs) / 2, len(hs) - 1} {
		r.Sample(hs[i].name())
	}
	r.Finish()
}

// minimal: drop events while the history still fails (the enumerated set is closed under dropping a tail event
// or a non-needed event); the key is the minimal failing history.
func minimal(h history, failing map[string]bool) string {
	cur := h
	for {
		reduced := false
		for k := range cur.Events {
			sub := history{Events: append(append([]event{}, cur.Events[:k]...), cur.Events[k+1:]...)}
			if failing[sub.name()] {
				cur, reduced = sub, true
				break
			}
		}
		if !reduced {
			return cur.name()
		}
	}
}
