// C11: evaluating a program piecewise equals evaluating it whole. Programs are generated from an
// item alphabet in define-before-use order; every way of cutting the declaration section and the statement
// section into consecutive chunks is fed through every incremental entry point; the reference is the whole
// program evaluated once in a fresh interpreter. Plus redefinition histories.
package main

import (
	"bytes"
	"fmt"
	"go/ast"
	"go/parser"
	"os"
	"path/filepath"
	"sort"
	"strings"
	"testing/fstest"

	"github.com/traefik/yaegi/interp"
	"verif/engine/par"
	"verif/engine/report"
	"verif/engine/twin/h"
)

type item struct {
	Name string
	Text string
	Need []string // names of items that must be present (and come earlier)
	Show string   // expressions to show at the end when this item is present
}

var decls = []item{
	{"K", "const K = 3", nil, "K"},
	{"x", "var x = 5", nil, "x"},
	{"xk", "var xk = K + x", []string{"K", "x"}, "xk"},
	{"P", "type P struct{ A, B int }", nil, ""},
	{"Sum", "func (p P) Sum() int { return p.A + p.B }", []string{"P"}, ""},
	{"Set", "func (p *P) Set(v int) { p.A = v }", []string{"P"}, ""},
	{"p", "var p = P{1, 2}", []string{"P"}, "p"},
	{"add", "func add(a, b int) int { return a + b }", nil, "add(1, 2)"},
	{"mk", "func mk(n int) func() int {\n\tc := n\n\treturn func() int {\n\t\tc++\n\t\treturn c\n\t}\n}", nil, ""},
	{"next", "var next = mk(10)", []string{"mk"}, ""},
	{"bump", "func bump() int {\n\tx++\n\treturn x\n}", []string{"x"}, ""},
	{"q", "var q = &x", []string{"x"}, "*q"},
	{"m", "var m = map[string]int{\"a\": 1}", nil, "m"},
	{"sl", "var sl = []int{1, 2}", nil, "sl"},
	{"I", "type I interface{ Sum() int }", nil, ""},
	{"iv", "var iv I = P{3, 4}", []string{"I", "P", "Sum"}, "iv.Sum()"},
	{"fs", "var fs []func() int", nil, "len(fs)"},
	{"calls", "func calls() []int {\n\tvar r []int\n\tfor _, f := range fs {\n\t\tr = append(r, f())\n\t}\n\treturn r\n}", []string{"fs"}, "calls()"},
}

var stmts = []item{
	{"x=add", "x = add(x, 2)", []string{"x", "add"}, ""},
	{"y:=Sum", "y := p.Sum()\nShow(\"y\", y)", []string{"p", "Sum"}, ""},
	{"loop", "for i := 0; i < 2; i++ {\n\tx += i + 1\n}", []string{"x"}, ""},
	{"p.Set", "p.Set(bump())", []string{"p", "Set", "bump"}, ""},
	{"*q", "*q += 5", []string{"q"}, ""},
	{"next()", "Show(\"next\", next(), next())", []string{"next"}, ""},
	{"m[b]", "m[\"b\"] = len(m) + 1", []string{"m"}, ""},
	{"append", "sl = append(sl, len(sl))", []string{"sl"}, ""},
	{"p.A=", "p.A = xk", []string{"p", "xk"}, ""},
	{"iv=", "iv = p\nShow(\"iv\", iv.Sum())", []string{"iv", "p"}, ""},
	{"closure", "f := func() int { return x * 2 }\nx = f()", []string{"x"}, ""},
	{"bump2", "Show(\"bump\", bump(), bump())", []string{"bump"}, ""},
	// statements that declare locals with the name of a global: they must shadow it, never overwrite it
	{"shadow-in-block", "{\n\tx := 99\n\tx++\n\tShow(\"inner\", x)\n}", []string{"x"}, ""},
	{"shadow-in-if", "if x := 77; x > 0 {\n\tShow(\"inner\", x)\n}", []string{"x"}, ""},
	{"shadow-in-loop", "for x := 0; x < 2; x++ {\n\tShow(\"inner\", x)\n}", []string{"x"}, ""},
	{"shadow-in-closure", "func() {\n\tx := 55\n\tShow(\"inner\", x)\n}()", []string{"x"}, ""},
	// var declaration statements in the middle of a statement chunk, used by later chunks
	{"var-stmt", "y0 := 1\n;;\nvar total int\n;;\ntotal = x + y0\n;;\nShow(\"total\", total)", []string{"x"}, ""},
	{"var-stmt-init", "x++\n;;\nvar label = \"sum\"\n;;\nlabel += \"!\"\n;;\nShow(label, x)", []string{"x"}, ""},
	{"var-stmt-multi", "x++\n;;\nvar u, w = x, x * 2\n;;\nu += w\n;;\nShow(\"uw\", u, w)", []string{"x"}, ""},
	{"define-then-closure", "z := x\n;;\ngz := func() int { return z * 2 }\n;;\nz++\n;;\nShow(\"gz\", gz(), z)", []string{"x"}, ""},
	// tuple definitions (multi-value call, comma-ok, several values) whose variables are captured by a closure / pointer and
	// then partly REdeclared by a later tuple definition: the redeclared name stays the same variable
	{"tuple-redeclare-call", "dmc := func(a, b int) (int, int) { return a / b, a % b }\n;;\nta, tb := dmc(29+x, 3)\n;;\nget := func() int { return ta }\n;;\nta, tc := dmc(39, 3)\n;;\nShow(\"t\", ta, tb, tc, get())", []string{"x"}, ""},
	{"tuple-redeclare-ptr", "dmp := func(a, b int) (int, int) { return a / b, a % b }\n;;\nua, ub := dmp(17+x, 5)\n;;\npu := &ua\n;;\nua, uc := dmp(40, 7)\n;;\n*pu += 100\n;;\nShow(\"u\", ua, ub, uc, *pu)", []string{"x"}, ""},
	{"tuple-redeclare-values", "va, vb := x, 2\n;;\ngv := func() int { return va + vb }\n;;\nva, vc := 10, 20\n;;\nShow(\"v\", va, vb, vc, gv())", []string{"x"}, ""},
	{"tuple-commaok", "mv, ok := m[\"a\"]\n;;\ngm := func() int { return mv }\n;;\nmv, ok2 := m[\"zz\"]\n;;\nShow(\"mv\", mv, ok, ok2, gm())", []string{"m"}, ""},
	// closures created by a loop of a top-level statement, called by later statements
	{"loop-closures", "for i := 0; i < 3; i++ {\n\tfs = append(fs, func() int { return i * 10 })\n}", []string{"fs", "calls"}, ""},
	{"range-closures", "for k, v := range []string{\"a\", \"bb\"} {\n\tfs = append(fs, func() int { return k*100 + len(v) })\n}", []string{"fs", "calls"}, ""},
	{"body-local-closures", "for i := 0; i < 2; i++ {\n\tw := i + 5\n\tfs = append(fs, func() int {\n\t\tw++\n\t\treturn w\n\t})\n}", []string{"fs", "calls"}, ""},
	{"call-closures", "Show(\"calls\", calls(), calls())", []string{"fs", "calls"}, ""},
}

type prog struct {
	Name  string   `json:"name"`
	Decls []string `json:"decls"`
	Stmts []string `json:"stmts"` // the last one is the final Show
}

func (p prog) whole() string {
	return "package main\n\nimport . \"verif/engine/twin/h\"\n\n" + strings.Join(p.Decls, "\n\n") + "\n\nfunc main() {\n" + strings.Join(p.Stmts, "\n") + "\n}\n"
}

func has(set []string, n string) bool {
	for _, s := range set {
		if s == n {
			return true
		}
	}
	return false
}

// programs: every dependency-closed subset of the declaration items with <= maxDecls members (in alphabet
// order = define-before-use), crossed with every sequence of <= maxStmts applicable statements.
func programs(maxDecls, maxStmts int) []prog {
	var ps []prog
	n := len(decls)
	for mask := 1; mask < 1<<n; mask++ {
		var names []string
		for i := 0; i < n; i++ {
			if mask&(1<<i) != 0 {
				names = append(names, decls[i].Name)
			}
		}
		if len(names) > maxDecls {
			continue
		}
		closed := true
		for i := 0; i < n && closed; i++ {
			if mask&(1<<i) != 0 {
				for _, need := range decls[i].Need {
					if !has(names, need) {
						closed = false
					}
				}
			}
		}
		if !closed {
			continue
		}
		var dtexts, shows []string
		for i := 0; i < n; i++ {
			if mask&(1<<i) != 0 {
				dtexts = append(dtexts, decls[i].Text)
				if decls[i].Show != "" {
					shows = append(shows, decls[i].Show)
				}
			}
		}
		final := "Show(\"final\")"
		if len(shows) > 0 {
			final = "Show(\"final\", " + strings.Join(shows, ", ") + ")"
		}
		var app []item
		for _, s := range stmts {
			ok := true
			for _, need := range s.Need {
				if !has(names, need) {
					ok = false
				}
			}
			if ok {
				app = append(app, s)
			}
		}
		var seqs func(prefix []item)
		seqs = func(prefix []item) {
			var st, sn []string
			for _, s := range prefix {
				st = append(st, strings.Split(s.Text, "\n;;\n")...) // an item may consist of several statements (cut points between them)
				sn = append(sn, s.Name)
			}
			ps = append(ps, prog{Name: strings.Join(names, ",") + " | " + strings.Join(sn, ";"), Decls: dtexts, Stmts: append(st, final)})
			if len(prefix) == maxStmts {
				return
			}
			for _, s := range app {
				if len(prefix) > 0 && prefix[len(prefix)-1].Name == s.Name {
					continue
				}
				seqs(append(append([]item{}, prefix...), s))
			}
		}
		seqs(nil)
	}
	return ps
}

func newInterp(buf *bytes.Buffer, fs fstest.MapFS) *interp.Interpreter {
	steps := 0
	o := interp.Options{Stdout: buf, Stderr: &bytes.Buffer{}}
	if fs != nil {
		o.SourcecodeFilesystem = fs
	}
	i := interp.New(o)
	i.Use(h.Exports(buf, &steps))
	return i
}

// chunks cuts items at the positions set in mask (bit k set = cut after item k).
func chunks(items []string, mask int) [][]string {
	var out [][]string
	var cur []string
	for k, it := range items {
		cur = append(cur, it)
		if mask&(1<<k) != 0 || k == len(items)-1 {
			out = append(out, cur)
			cur = nil
		}
	}
	return out
}

type run struct {
	P     prog   `json:"program"`
	Mode  string `json:"mode"` // whole-compile | whole-ast | whole-disk | whole-mapfs | eval | compile | ast | files-{mapfs,disk}-{fwd,rev}
	DMask int    `json:"decl_cuts"`
	SMask int    `json:"stmt_cuts"`
}

func guard(f func() error) (err error) {
	defer func() {
		if r := recover(); r != nil {
			err = fmt.Errorf("HOSTPANIC: %v", r)
		}
	}()
	return f()
}

var scratch string

func exec(r run) (string, error) {
	var buf bytes.Buffer
	p := r.P
	err := guard(func() error {
		switch r.Mode {
		case "whole":
			_, err := newInterp(&buf, nil).Eval(p.whole())
			return err
		case "whole-compile":
			i := newInterp(&buf, nil)
			pr, err := i.Compile(p.whole())
			if err != nil {
				return err
			}
			_, err = i.Execute(pr)
			return err
		case "whole-ast":
			i := newInterp(&buf, nil)
			f, err := parser.ParseFile(i.FileSet(), "w.go", p.whole(), 0)
			if err != nil {
				return err
			}
			pr, err := i.CompileAST(f)
			if err != nil {
				return err
			}
			_, err = i.Execute(pr)
			return err
		case "whole-disk":
			path := filepath.Join(scratch, "w.go")
			if err := os.WriteFile(path, []byte(p.whole()), 0o644); err != nil {
				return fmt.Errorf("HARNESS: %v", err)
			}
			_, err := newInterp(&buf, nil).EvalPath(path)
			return err
		case "whole-mapfs":
			_, err := newInterp(&buf, fstest.MapFS{"w.go": &fstest.MapFile{Data: []byte(p.whole())}}).EvalPath("w.go")
			return err
		}
		if strings.HasPrefix(r.Mode, "files-") {
			// the declaration chunks become the files of one package directory (file names in chunk order or in
			// reverse chunk order; main in the last / first file), loaded by EvalPath(dir)
			cs := chunks(p.Decls, r.DMask)
			const hd = "package main\n\nimport . \"verif/engine/twin/h\"\n\nvar _ = Show\n\n"
			files := map[string]string{}
			rev := strings.HasSuffix(r.Mode, "-rev")
			for j, c := range cs {
				n := j
				if rev {
					n = len(cs) - 1 - j
				}
				files[fmt.Sprintf("d%d.go", n)] = hd + strings.Join(c, "\n\n") + "\n"
			}
			mainName := "z_main.go"
			if rev {
				mainName = "a_main.go"
			}
			files[mainName] = hd + "func main() {\n" + strings.Join(p.Stmts, "\n") + "\n}\n"
			if strings.HasPrefix(r.Mode, "files-mapfs") {
				mfs := fstest.MapFS{}
				for n, t := range files {
					mfs["gp/src/pk/"+n] = &fstest.MapFile{Data: []byte(t)}
				}
				_, err := newInterp(&buf, mfs).EvalPath("./gp/src/pk")
				return err
			}
			gp := filepath.Join(scratch, fmt.Sprintf("gp%d", os.Getpid()))
			dir := filepath.Join(gp, "src", "pk")
			os.RemoveAll(gp)
			if err := os.MkdirAll(dir, 0o755); err != nil {
				return fmt.Errorf("HARNESS: %v", err)
			}
			defer os.RemoveAll(gp)
			for n, t := range files {
				if err := os.WriteFile(filepath.Join(dir, n), []byte(t), 0o644); err != nil {
					return fmt.Errorf("HARNESS: %v", err)
				}
			}
			steps := 0
			di := interp.New(interp.Options{Stdout: &buf, Stderr: &bytes.Buffer{}, GoPath: gp})
			di.Use(h.Exports(&buf, &steps))
			_, err := di.EvalPath("pk") // resolved under GoPath/src, as an import path
			return err
		}
		// piecewise
		i := newInterp(&buf, nil)
		feed := func(src string, isStmt bool) error {
			switch r.Mode {
			case "eval":
				_, err := i.Eval(src)
				return err
			case "compile":
				pr, err := i.Compile(src)
				if err != nil {
					return err
				}
				_, err = i.Execute(pr)
				return err
			case "ast":
				var n ast.Node
				if isStmt {
					f, err := parser.ParseFile(i.FileSet(), "c.go", "package main\n\nfunc _() {\n"+src+"\n}\n", 0)
					if err != nil {
						return err
					}
					n = f.Decls[0].(*ast.FuncDecl).Body
				} else {
					f, err := parser.ParseFile(i.FileSet(), "c.go", "package main\n\n"+src+"\n", 0)
					if err != nil {
						return err
					}
					n = f
				}
				pr, err := i.CompileAST(n)
				if err != nil {
					return err
				}
				_, err = i.Execute(pr)
				return err
			}
			return fmt.Errorf("HARNESS: mode %s", r.Mode)
		}
		if err := feed("import . \"verif/engine/twin/h\"", false); err != nil {
			return err
		}
		for _, c := range chunks(p.Decls, r.DMask) {
			if err := feed(strings.Join(c, "\n\n"), false); err != nil {
				return err
			}
		}
		for _, c := range chunks(p.Stmts, r.SMask) {
			if err := feed(strings.Join(c, "\n"), true); err != nil {
				return err
			}
		}
		return nil
	})
	return buf.String(), err
}

type fail struct {
	R    run    `json:"run"`
	Want string `json:"whole"`
	Got  string `json:"piecewise"`
	Err  string `json:"err"`
}

func one(r run) *fail {
	want, werr := exec(run{P: r.P, Mode: "whole"})
	par.Count("runs", 1)
	if werr != nil {
		// the whole program itself is not accepted: not a piecewise question (counted, reported once per program by mode "whole")
		par.Count("whole_program_rejected", 1)
		if r.Mode == "whole-compile" {
			return &fail{R: run{P: r.P, Mode: "whole"}, Err: "whole program rejected: " + first(werr.Error())}
		}
		return nil
	}
	got, err := exec(r)
	par.Distinct("outputs", want)
	if err != nil && strings.HasPrefix(err.Error(), "HARNESS") {
		return &fail{R: r, Err: err.Error()}
	}
	if err == nil && got == want {
		return nil
	}
	f := &fail{R: r, Want: want, Got: got}
	if err != nil {
		f.Err = first(err.Error())
	}
	return f
}

func first(s string) string {
	if i := strings.IndexByte(s, '\n'); i >= 0 {
		s = s[:i]
	}
	return s
}

// ---- redefinition histories ----

type hist struct {
	Name   string   `json:"name"`
	Events []string `json:"events"` // Eval inputs; "?expr" evaluates expr and logs the value
	Want   []string `json:"want"`
}

func histories() []hist {
	f1, f2 := "func f() int { return 1 }", "func f() int { return 2 }"
	g := "func g() int { return 10 }"
	v := "var v = 7"
	m1, m2 := "type T struct{ N int }\n\nfunc (t T) M() int { return t.N + 1 }", "func (t T) M() int { return t.N + 100 }"
	return []hist{
		{"redefine f keeps g and v", []string{f1, g, v, "?f()", f2, "?f()", "?g()", "?v"}, []string{"1", "2", "10", "7"}},
		{"redefine f twice", []string{f1, "?f()", f2, "?f()", f1, "?f()"}, []string{"1", "2", "1"}},
		{"redefine after use in var", []string{f1, "var w = f()", f2, "?w", "?f()"}, []string{"1", "2"}},
		{"redefine with other signature", []string{f1, g, "func f(a int) int { return a }", "?f(5)", "?g()"}, []string{"5", "10"}},
		{"redefine method keeps type and values", []string{m1, "var t = T{1}", "?t.M()", m2, "?t.M()", "?t.N"}, []string{"2", "101", "1"}},
		{"redefine var keeps funcs", []string{v, g, "var v = 8", "?v", "?g()"}, []string{"8", "10"}},
		{"closure survives redefinition of its maker", []string{"func mk() func() int { c := 0; return func() int { c++; return c } }", "var n = mk()", "?n()", "func mk() func() int { return func() int { return -1 } }", "?n()", "?mk()()"}, []string{"1", "2", "-1"}},
	}
}

func runHist(hs hist) (got []string, err error) {
	var buf bytes.Buffer
	i := newInterp(&buf, nil)
	err = guard(func() error {
		for _, e := range hs.Events {
			if strings.HasPrefix(e, "?") {
				v, err := i.Eval(e[1:])
				if err != nil {
					got = append(got, "ERR "+first(err.Error()))
					continue
				}
				got = append(got, fmt.Sprint(v.Interface()))
				continue
			}
			if _, err := i.Eval(e); err != nil {
				return fmt.Errorf("%q: %v", e, err)
			}
		}
		return nil
	})
	return
}

func main() {
	r := report.Start("C11", "model_checking")
	if par.IsWorker() || r.Replay != "" {
		scratch = filepath.Join(report.Root, ".work", "c11", fmt.Sprint("w", os.Getpid()))
		os.MkdirAll(scratch, 0o755)
	}
	if r.Replay != "" {
		var cs []fail
		if err := report.ReadReplay(r.Replay, &cs); err != nil {
			fmt.Fprintln(os.Stderr, "HARNESS-ERROR:", err)
			os.Exit(3)
		}
		bad := 0
		for _, c := range cs {
			if f := one(c.R); f != nil {
				bad++
				fmt.Printf("replay %s mode=%s cuts=%b/%b\n whole:     %q\n piecewise: %q err=%s\n--- whole program ---\n%s\n", c.R.P.Name, c.R.Mode, c.R.DMask, c.R.SMask, f.Want, f.Got, f.Err, c.R.P.whole())
			} else {
				fmt.Println("replay: agrees now:", c.R.P.Name)
			}
		}
		os.RemoveAll(filepath.Join(report.Root, ".work", "c11"))
		if bad > 0 {
			fmt.Printf("VIOLATION property=C11 replay=%s\n", r.Replay)
			os.Exit(1)
		}
		os.Exit(0)
	}
	maxD, maxS := 4, 1
	ps := programs(maxD, maxS)
	if r.Thorough() {
		// wider declaration sets with one statement item, and pairs of statement items over smaller declaration sets
		// (the full product 5 x 2 does not fit in memory since the statement alphabet has 28 items)
		maxD, maxS = 5, 2
		seen := map[string]bool{}
		ps = nil
		for _, p := range append(programs(5, 1), programs(3, 2)...) {
			if !seen[p.Name] {
				seen[p.Name] = true
				ps = append(ps, p)
			}
		}
	}
	var runs []run
	for _, p := range ps {
		for _, m := range []string{"whole-compile", "whole-ast", "whole-disk", "whole-mapfs"} {
			runs = append(runs, run{P: p, Mode: m})
		}
		nd, ns := len(p.Decls), len(p.Stmts)
		// statement cuts: all of them up to 5 cut points; beyond (two multi-statement items in sequence) no cut, every
		// cut, each single cut and each single missing cut (reported in the rule; memory, not time, is the limit)
		var smasks []int
		if ns-1 <= 5 {
			for sm := 0; sm < 1<<(ns-1); sm++ {
				smasks = append(smasks, sm)
			}
		} else {
			all := 1<<(ns-1) - 1
			smasks = append(smasks, 0, all)
			for b := 0; b < ns-1; b++ {
				smasks = append(smasks, 1<<b, all&^(1<<b))
			}
		}
		for dm := 0; dm < 1<<(nd-1); dm++ {
			for _, sm := range smasks {
				// interactive input is a list of declarations or a list of statements: a chunk that starts with a var
				// declaration and goes on with statements is neither (the front end reads it as declarations)
				mixed := false
				for _, c := range chunks(p.Stmts, sm) {
					if strings.HasPrefix(c[0], "var ") && len(c) > 1 {
						mixed = true
					}
				}
				if mixed {
					continue
				}
				for _, m := range []string{"eval", "compile", "ast"} {
					runs = append(runs, run{P: p, Mode: m, DMask: dm, SMask: sm})
				}
			}
			if dm != 0 {
				for _, m := range []string{"files-mapfs-fwd", "files-mapfs-rev", "files-disk-fwd", "files-disk-rev"} {
					runs = append(runs, run{P: p, Mode: m, DMask: dm})
				}
			}
		}
	}
	res := par.Map(len(runs), func(i int) *fail { return one(runs[i]) }, par.Opts{})
	os.RemoveAll(filepath.Join(report.Root, ".work", "c11"))
	// attribution to a minimal failing program of the same run: among the failing programs with the same mode and
	// symptom, the smallest one whose declaration items and statement items are subsets of this program's
	type progSet struct {
		name         string
		decls, stmts map[string]bool
		size         int
	}
	mk := func(name string) progSet {
		ps := progSet{name: name, decls: map[string]bool{}, stmts: map[string]bool{}}
		d, st, _ := strings.Cut(name, " | ")
		for _, x := range strings.Split(d, ",") {
			if x != "" {
				ps.decls[x] = true
			}
		}
		for _, x := range strings.Split(st, ";") {
			if x != "" {
				ps.stmts[x] = true
			}
		}
		ps.size = len(ps.decls) + len(ps.stmts)
		return ps
	}
	// per class: programs in ascending size; a program is minimal when no earlier minimal program is a subset of it
	byClass := map[string]map[string]progSet{}
	for _, f := range res.Outs {
		c := keyOf(f)
		if byClass[c] == nil {
			byClass[c] = map[string]progSet{}
		}
		if _, ok := byClass[c][f.R.P.Name]; !ok {
			byClass[c][f.R.P.Name] = mk(f.R.P.Name)
		}
	}
	attributed := map[string]map[string]string{} // class -> program -> minimal program
	for c, progs := range byClass {
		var all []progSet
		for _, ps := range progs {
			all = append(all, ps)
		}
		sort.Slice(all, func(i, j int) bool {
			if all[i].size != all[j].size {
				return all[i].size < all[j].size
			}
			return all[i].name < all[j].name
		})
		var minimals []progSet
		attributed[c] = map[string]string{}
		for _, me := range all {
			found := ""
			for _, cand := range minimals {
				sub := true
				for d := range cand.decls {
					if !me.decls[d] {
						sub = false
						break
					}
				}
				if sub {
					for st := range cand.stmts {
						if !me.stmts[st] {
							sub = false
							break
						}
					}
				}
				if sub {
					found = cand.name
					break
				}
			}
			if found == "" {
				minimals = append(minimals, me)
				found = me.name
			}
			attributed[c][me.name] = found
		}
	}
	minimal := func(f fail) string {
		c := keyOf(f)
		return c + " | " + attributed[c][f.R.P.Name]
	}
	for _, f := range res.Outs {
		if strings.HasPrefix(f.Err, "HARNESS") {
			r.HarnessError("%s", f.Err)
			continue
		}
		key := keyOf(f)
		if !strings.HasPrefix(f.R.Mode, "whole") {
			key = minimal(f)
		}
		r.Fail(report.Failure{Key: key, What: fmt.Sprintf("%s mode=%s decl-cuts=%b stmt-cuts=%b: whole=%q piecewise=%q err=%s", f.R.P.Name, f.R.Mode, f.R.DMask, f.R.SMask, f.Want, f.Got, f.Err), Case: f})
	}
	for _, a := range res.Abnormal {
		rr := runs[a.Idx]
		r.Fail(report.Failure{Key: rr.P.Name + " | " + rr.Mode + " | " + a.Kind, What: rr.P.Name + ": interpreter " + a.Kind, Case: fail{R: rr, Err: a.Kind}})
	}
	// redefinition histories (in the parent: a handful)
	nh := 0
	if !par.IsWorker() {
		for _, hs := range histories() {
			nh++
			got, err := runHist(hs)
			if err != nil || strings.Join(got, "|") != strings.Join(hs.Want, "|") {
				r.Fail(report.Failure{Key: "history: " + hs.Name, What: fmt.Sprintf("history %q: got %v want %v err=%v", hs.Name, got, hs.Want, err), Case: hs})
			}
		}
	}
	n := res.Counts["runs"]
	r.Set("evaluations", n+int64(nh))
	r.Set("programs", len(ps))
	r.Set("redefinition_histories", nh)
	r.Set("states", len(res.Sets["outputs"]))
	r.Set("transitions", n)
	r.Set("traces_validated_against_impl", n)
	r.Set("distinct_nontrivial", len(res.Sets["outputs"]))
	r.Set("whole_programs_rejected_runs", res.Counts["whole_program_rejected"])
	r.Set("exhaustive", true)
	r.Set("rule", fmt.Sprintf("programs = every dependency-closed subset of <= %d (thorough: <= 5 with one statement item, <= 3 with two) of 18 declaration items (define-before-use order) x every sequence (28 statement items, incl. tuple definitions captured and partly redeclared by later chunks, blocks that shadow a global and var statements in the middle of a chunk used by later chunks) of <= %d applicable statements + a final Show of all declared globals; every cut of the declaration section and of the statement section into consecutive chunks (statement sections with more than 5 cut points: no cut, every cut, each single cut, each single missing cut) x {successive Eval, Compile+Execute, CompileAST+Execute}; whole program through Compile+Execute, CompileAST, EvalPath on disk and on MapFS; every cut of the declaration section written as the files of one package directory (file names in chunk order and in reverse chunk order, main in the last / first file) and loaded by EvalPath(dir) on disk and on MapFS; reference = Eval of the whole program in a fresh interpreter; states = distinct whole-program outputs", maxD, maxS))
	r.Assumptions = []string{"a chunk is either declarations or statements (declarations precede statements); forward references across a cut are not demanded", "reference = the whole program evaluated once (C01 binds that to the compiler)"}
	for _, i := range []int{0, len(runs) / 2, len(runs) - 1} {
		r.Sample(map[string]interface{}{"program": runs[i].P.Name, "mode": runs[i].Mode, "decl_cuts": runs[i].DMask, "stmt_cuts": runs[i].SMask, "decls": runs[i].P.Decls, "stmts": runs[i].P.Stmts})
	}
	r.Finish()
}

// keyOf: mode + which adjacent items ended up in different chunks at the first point of divergence is too fine;
// the finding is (mode, the pair of items around the cut that makes it fail) when a single cut suffices, else the program.
func keyOf(f fail) string {
	sym := "output differs"
	if f.Err != "" {
		sym = "error: " + strings.TrimSpace(stripPos(f.Err))
	}
	if strings.HasPrefix(f.R.Mode, "whole") {
		return f.R.Mode + " | " + f.R.P.Name + " | " + sym
	}
	return f.R.Mode + " | " + sym
}

func stripPos(s string) string {
	for i := 0; i < len(s); i++ {
		if s[i] == ' ' {
			if strings.Count(s[:i], ":") >= 2 {
				return s[i+1:]
			}
			break
		}
	}
	return s
}
