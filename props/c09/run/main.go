// C09: cancellation stops all interpreted activity promptly. The real interpreter runs under the
// controlled scheduler together with a canceller environment thread whose only action is cancel(); choosing
// it at global step k cancels the context at exactly that point. Every k and every interleaving of the
// interpreted threads with a bounded number of preemptions (before and after the cancel, including both
// outcomes of a select that has the cancellation channel and another case ready) is executed.
package main

import (
	"bytes"
	"context"
	"encoding/json"
	"errors"
	"fmt"
	"os"
	"path/filepath"
	"reflect"
	"strings"
	"sync"
	"testing/fstest"

	"github.com/traefik/yaegi/interp"
	"github.com/traefik/yaegi/vsched"
	"verif/engine/par"
	"verif/engine/report"
)

type program struct {
	Name string `json:"name"`
	Src  string `json:"src"`
}

var family = []program{
	{"busy-loop", `package main

import "h"

func main() {
	for i := 0; i < 5; i++ {
		h.Tick(0)
	}
}
`},
	{"recursion", `package main

import "h"

func r(n int) int {
	h.Tick(0)
	if n == 0 {
		return 0
	}
	return r(n-1) + 1
}

func main() {
	r(4)
	h.Tick(0)
}
`},
	{"closure-loop", `package main

import "h"

func main() {
	k := 0
	f := func(i int) {
		k += i
		h.Tick(0)
	}
	for i := 0; i < 4; i++ {
		f(i)
	}
}
`},
	{"host-callback-loop", `package main

import "h"

func main() {
	h.Each(4, func(i int) {
		h.Tick(0)
	})
	h.Tick(0)
}
`},
	{"goroutine-tree", `package main

import "h"

func worker(id int, n int, done chan bool) {
	for i := 0; i < n; i++ {
		h.Tick(id)
	}
	done <- true
}

func main() {
	done := make(chan bool)
	go worker(1, WN, done)
	go func() {
		sub := make(chan bool)
		go worker(3, WN, sub)
		h.Tick(2)
		<-sub
		done <- true
	}()
	<-done
	<-done
	h.Tick(0)
}
`},
	{"blocked-send", `package main

import "h"

func main() {
	c := make(chan int)
	h.Tick(0)
	c <- 1
	h.Tick(0)
	h.Tick(0)
}
`},
	{"blocked-receive", `package main

import "h"

func main() {
	c := make(chan int)
	go func() {
		h.Tick(1)
		<-c
		h.Tick(1)
		h.Tick(1)
	}()
	h.Tick(0)
	<-c
	h.Tick(0)
	h.Tick(0)
}
`},
	{"select-no-default", `package main

import "h"

func main() {
	a := make(chan int)
	b := make(chan int, 1)
	go func() {
		h.Tick(1)
		b <- 1
		h.Tick(1)
	}()
	for i := 0; i < 2; i++ {
		select {
		case v := <-a:
			h.Tick(v)
		case v := <-b:
			h.Tick(v - 1)
		}
	}
	h.Tick(0)
}
`},
	{"range-over-channel", `package main

import "h"

func main() {
	c := make(chan int)
	go func() {
		for i := 0; i < 2; i++ {
			c <- i
			h.Tick(1)
		}
	}()
	for v := range c {
		h.Tick(0)
		_ = v
	}
	h.Tick(0)
}
`},
	{"buffered-producer-consumer", `package main

import "h"

func main() {
	c := make(chan int, 1)
	done := make(chan bool)
	go func() {
		for i := 0; i < PN; i++ {
			c <- i
			h.Tick(1)
		}
		close(c)
	}()
	go func() {
		for range c {
			h.Tick(2)
		}
		done <- true
	}()
	<-done
	h.Tick(0)
}
`},
	{"two-consumers-one-buffered-channel", `package main

import "h"

func main() {
	c := make(chan int, 1)
	done := make(chan bool)
	for w := 0; w < 2; w++ {
		go func() {
			for v := range c {
				h.Tick(v)
			}
			done <- true
		}()
	}
	for i := 0; i < PN; i++ {
		c <- i
	}
	close(c)
	<-done
	<-done
	h.Tick(0)
}
`},
	{"host-callback-declared-func", `package main

import "h"

func cb(i int) {
	h.Tick(0)
}

func main() {
	h.Each(4, cb)
	h.Tick(0)
}
`},
	{"deferred-declared-func", `package main

import "h"

func cleanup() {
	for i := 0; i < 3; i++ {
		h.Tick(0)
	}
}

func work() {
	defer cleanup()
	for i := 0; i < 3; i++ {
		h.Tick(0)
	}
}

func main() {
	work()
	h.Tick(0)
}
`},
	{"deferred-closure", `package main

import "h"

func main() {
	n := 0
	func() {
		defer func() {
			for i := 0; i < 3; i++ {
				n++
				h.Tick(0)
			}
		}()
		for i := 0; i < 3; i++ {
			h.Tick(0)
		}
	}()
	h.Tick(n - n)
}
`},
	{"var-init-then-init-then-main", `package main

import "h"

func slow() int {
	s := 0
	for i := 0; i < 3; i++ {
		h.Tick(0)
		s += i
	}
	return s
}

var v = slow()

func init() {
	h.Tick(0)
}

func main() {
	for i := 0; i < 2; i++ {
		h.Tick(0)
	}
}
`},
	{"two-inits", `package main

import "h"

func init() {
	for i := 0; i < 3; i++ {
		h.Tick(0)
	}
}

func init() {
	h.Tick(0)
}

func main() {
	h.Tick(0)
}
`},
}

type scenario struct {
	Prog  int    `json:"prog"`
	Entry string `json:"entry"` // eval | execute | evalpath
	Warm  bool   `json:"warm"`  // the interpreter has already completed one plain evaluation
}

func (s scenario) name() string {
	if s.Warm {
		return family[s.Prog].Name + " entry=" + s.Entry + " warm"
	}
	return family[s.Prog].Name + " entry=" + s.Entry
}

type result struct {
	Points    []vsched.Point
	Choices   []int
	Outcome   string // "" = fine
	Cancelled bool   // the cancel happened while the evaluation was in progress
	Threads   int
	Steps     int
}

// run executes one schedule.
func run(sc scenario, prefix []int) (r result) {
	var mu sync.Mutex
	cancelled := false
	returned := false
	stepsAfter := map[int]int{}
	ticksAfter := map[int]int{}
	stepsSoFar := 0
	cancelPoint := -1
	tid := func() int {
		if t := vsched.Current(); t != nil {
			return t.ID
		}
		return -1
	}
	interp.VerifSetStep(func(*interp.Interpreter, uint64, uint64) {
		mu.Lock()
		stepsSoFar++
		if cancelled && returned {
			stepsAfter[tid()]++
		}
		mu.Unlock()
		vsched.Step()
	})
	var evalErr error
	laterErr := "" // usability after a cancel is C10's subject: any later Eval re-runs main and would disturb the counts
	var buf bytes.Buffer
	s := vsched.New(prefix)
	s.Run(func() {
		src := family[sc.Prog].Src
		opts := interp.Options{Stdout: &buf, Stderr: &bytes.Buffer{}}
		if sc.Entry == "evalpath" {
			opts.SourcecodeFilesystem = fstest.MapFS{"main.go": &fstest.MapFile{Data: []byte(src)}}
		}
		i := interp.New(opts)
		i.Use(interp.Exports{"h/h": {
			"Tick": reflect.ValueOf(func(id int) {
				mu.Lock()
				if cancelled && returned {
					ticksAfter[tid()]++
				}
				mu.Unlock()
			}),
			"Each": reflect.ValueOf(func(n int, f func(int)) {
				for j := 0; j < n; j++ {
					f(j)
				}
			}),
		}})
		if sc.Warm {
			// an earlier, completed, plain evaluation: long-lived frames keep what it left behind
			if _, err := i.Eval("var warm = 1"); err != nil {
				evalErr = fmt.Errorf("warm-up: %v", err)
				return
			}
			mu.Lock()
			stepsSoFar = 0
			mu.Unlock()
		}
		ctx, cancel := context.WithCancel(context.Background())
		defer cancel()
		var prog *interp.Program
		if sc.Entry == "execute" {
			var err error
			if prog, err = i.Compile(src); err != nil {
				evalErr = fmt.Errorf("compile: %v", err)
				return
			}
		}
		evalDone := false
		vsched.GoEnv("canceller", func() {
			vsched.Yield("cancel")
			mu.Lock()
			// a cancel before the first interpreted operation (parse/compile phase) or after the call returned is outside
			// "k counted in interpreted operations"
			if !evalDone && stepsSoFar > 0 {
				cancelled = true
				r.Cancelled = true
				cancelPoint = len(vsched.S.Choices)
			}
			mu.Unlock()
			cancel()
		})
		switch sc.Entry {
		case "eval":
			_, evalErr = i.EvalWithContext(ctx, src)
		case "execute":
			_, evalErr = i.ExecuteWithContext(ctx, prog)
		case "evalpath":
			_, evalErr = i.EvalPathWithContext(ctx, "main.go")
		}
		mu.Lock()
		evalDone = true
		returned = true
		mu.Unlock()
	})
	interp.VerifSetStep(nil)
	r.Points, r.Choices = s.Points, s.Choices
	r.Threads = len(s.Threads())
	for _, t := range s.Threads() {
		r.Steps += t.Steps
	}
	switch {
	case s.Diverged != "":
		r.Outcome = "HARNESS " + s.Diverged
	case s.CapHit:
		r.Outcome = "step cap reached: some interpreted thread never stops"
	case len(s.ThreadPanics) > 0:
		r.Outcome = "goroutine panic: " + s.ThreadPanics[0]
	case s.Deadlock:
		r.Outcome = "a thread is left blocked forever: " + s.DeadlockInfo
	case r.Cancelled && evalErr != nil && !errors.Is(evalErr, context.Canceled):
		// nil is legal too: the evaluation may complete between the cancel and the moment the caller observes it
		r.Outcome = fmt.Sprintf("cancelled while running but the call returned %v instead of the context's error", evalErr)
	case !r.Cancelled && evalErr != nil && !errors.Is(evalErr, context.Canceled):
		r.Outcome = fmt.Sprintf("the call returned error %v", evalErr)
	case laterErr != "":
		r.Outcome = laterErr
	}
	if r.Outcome == "" && r.Cancelled {
		for t, n := range stepsAfter {
			// the later, uncancelled Eval("1+1") of the main thread legitimately executes operations
			if t != 0 && n > 1 {
				r.Outcome = fmt.Sprintf("thread %d executed %d interpreted operations after the cancellation (at most the one in flight is allowed)", t, n)
			}
		}
		for t, n := range ticksAfter {
			if n > 1 {
				r.Outcome = fmt.Sprintf("thread %d caused %d side effects (host calls) after the cancellation", t, n)
			}
		}
		// promptness made structural: right after the cancel the host caller must be able to return without
		// any script progress, i.e. it is enabled at the next scheduling point
		if r.Outcome == "" && cancelPoint >= 0 && cancelPoint < len(r.Points) {
			ok := false
			for _, t := range r.Points[cancelPoint].AltThreads {
				if t == 0 {
					ok = true
				}
			}
			if !ok {
				r.Outcome = "after the cancel the host caller cannot return before the script makes progress"
			}
		}
	}
	return
}

// cost counts the deviations from the default schedule before point i: every non-default choice other than
// scheduling the canceller (the canceller position k is a free dimension: every k is explored).
func cost(x result, i int) int {
	c := 0
	for k := 0; k < i; k++ {
		if a := x.Choices[k]; a != 0 && !x.Points[k].AltEnv[a] {
			c++
		}
	}
	return c
}

type stats struct {
	Execs, Points, Cancelled, MaxDepth int
	Bad                                [][]int
	BadOutcome                         []string
}

func note(st *stats, x result) {
	st.Execs++
	st.Points += len(x.Points)
	if x.Cancelled {
		st.Cancelled++
	}
	if len(x.Points) > st.MaxDepth {
		st.MaxDepth = len(x.Points)
	}
	if x.Outcome != "" && len(st.Bad) < 4 {
		st.Bad = append(st.Bad, append([]int{}, x.Choices...))
		st.BadOutcome = append(st.BadOutcome, x.Outcome)
	}
}

func alternatives(x result, from, bound int) (out [][]int) {
	for i := from; i < len(x.Points); i++ {
		p := x.Points[i]
		base := cost(x, i)
		for alt := 1; alt < p.NEnabled; alt++ {
			c := base
			if !p.AltEnv[alt] {
				c++
			}
			if c <= bound {
				out = append(out, append(append([]int{}, x.Choices[:i]...), alt))
			}
		}
	}
	return
}

func explore(sc scenario, prefix []int, bound int, st *stats, budget *int) {
	if *budget <= 0 {
		return
	}
	*budget--
	x := run(sc, prefix)
	note(st, x)
	for _, p := range alternatives(x, len(prefix), bound) {
		explore(sc, p, bound, st, budget)
	}
}

type job struct {
	Sc     int   `json:"sc"`
	Prefix []int `json:"prefix"`
}

type jobOut struct {
	Sc     int   `json:"sc"`
	St     stats `json:"st"`
	Capped bool  `json:"capped"`
}

func main() {
	r := report.Start("C09", "model_checking")
	// loop counts of the two largest programs depend on the tier (quick: 1 / 2, thorough: 2 / 3)
	wn, pn := "1", "2"
	if r.Thorough() {
		wn, pn = "2", "3"
	}
	for i := range family {
		family[i].Src = strings.NewReplacer("WN", wn, "PN", pn).Replace(family[i].Src)
	}
	var scs []scenario
	for pi := range family {
		for _, e := range []string{"eval", "execute", "evalpath"} {
			scs = append(scs, scenario{pi, e, false}, scenario{pi, e, true})
		}
	}
	if r.Replay != "" {
		var cs []struct {
			Scenario string `json:"scenario"`
			Schedule []int  `json:"schedule"`
		}
		if err := report.ReadReplay(r.Replay, &cs); err != nil {
			fmt.Fprintln(os.Stderr, "HARNESS-ERROR:", err)
			os.Exit(3)
		}
		bad := 0
		for _, c := range cs {
			for _, sc := range scs {
				if sc.name() != c.Scenario {
					continue
				}
				var outs []string
				for k := 0; k < 3; k++ {
					outs = append(outs, run(sc, c.Schedule).Outcome)
				}
				if outs[0] != outs[1] || outs[1] != outs[2] {
					fmt.Println("HARNESS-ERROR: replay is not deterministic:", outs)
					os.Exit(3)
				}
				if outs[0] != "" {
					bad++
					fmt.Printf("replay %s schedule=%v: %s\n%s\n", sc.name(), c.Schedule, outs[0], family[sc.Prog].Src)
				} else {
					fmt.Println("replay: holds now:", sc.name())
				}
			}
		}
		if bad > 0 {
			fmt.Printf("VIOLATION property=C09 replay=%s\n", r.Replay)
			os.Exit(1)
		}
		os.Exit(0)
	}
	bound, perRoot := 1, 50000
	if r.Thorough() {
		bound, perRoot = 2, 50000
	}
	// boundOf: the three programs added in round d (declared-function callback, deferred declared function, deferred
	// closure) are explored with at most one deviation in both tiers: their two-deviation trees did not fit into the
	// session that added them (the thorough run was cut off after 50 minutes on a loaded machine) and an unverified bound is
	// not registered. Reported as deviation_bound_round_d_programs in the evidence.
	boundOf := func(sc scenario) int {
		switch family[sc.Prog].Name {
		case "host-callback-declared-func", "deferred-declared-func", "deferred-closure":
			return 1
		}
		return bound
	}
	jobsFile := filepath.Join(report.Root, ".work", "c09_jobs.json")
	var jobs []job
	rootStats := map[int]*stats{}
	if !par.IsWorker() {
		for si, sc := range scs {
			x := run(sc, nil)
			st := &stats{}
			note(st, x)
			rootStats[si] = st
			// two levels of the schedule tree are expanded by the parent so that the subtrees are small and many
			for _, p := range alternatives(x, 0, boundOf(sc)) {
				y := run(sc, p)
				note(st, y)
				for _, q := range alternatives(y, len(p), boundOf(sc)) {
					jobs = append(jobs, job{si, q})
				}
			}
		}
		os.MkdirAll(filepath.Dir(jobsFile), 0o755)
		b, _ := json.Marshal(jobs)
		os.WriteFile(jobsFile, b, 0o644)
	} else {
		b, err := os.ReadFile(jobsFile)
		if err != nil || json.Unmarshal(b, &jobs) != nil {
			fmt.Fprintln(os.Stderr, "HARNESS-ERROR: worker cannot read", jobsFile)
			os.Exit(3)
		}
	}
	res := par.Map(len(jobs), func(i int) *jobOut {
		j := jobs[i]
		st := stats{}
		budget := perRoot
		explore(scs[j.Sc], j.Prefix, boundOf(scs[j.Sc]), &st, &budget)
		return &jobOut{Sc: j.Sc, St: st, Capped: budget <= 0}
	}, par.Opts{CaseTimeout: 900 * 1e9, GoMaxProcs: 1, MemMB: 8192})
	os.Remove(jobsFile)
	capped := 0
	for _, o := range res.Outs {
		st := rootStats[o.Sc]
		st.Execs += o.St.Execs
		st.Points += o.St.Points
		st.Cancelled += o.St.Cancelled
		if o.St.MaxDepth > st.MaxDepth {
			st.MaxDepth = o.St.MaxDepth
		}
		st.Bad = append(st.Bad, o.St.Bad...)
		st.BadOutcome = append(st.BadOutcome, o.St.BadOutcome...)
		if o.Capped {
			capped++
		}
	}
	for _, a := range res.Abnormal {
		j := jobs[a.Idx]
		r.Fail(report.Failure{Key: scs[j.Sc].name() + " | explorer worker " + a.Kind, What: fmt.Sprintf("%s: below schedule %v an execution did not terminate (%s)", scs[j.Sc].name(), j.Prefix, a.Kind), Case: map[string]interface{}{"scenario": scs[j.Sc].name(), "schedule": j.Prefix}})
	}
	var execs, points, cancelledRuns, maxDepth int
	per := map[string]interface{}{}
	for si, sc := range scs {
		st := rootStats[si]
		if st == nil {
			continue
		}
		execs += st.Execs
		points += st.Points
		cancelledRuns += st.Cancelled
		if st.MaxDepth > maxDepth {
			maxDepth = st.MaxDepth
		}
		per[sc.name()] = map[string]int{"executions": st.Execs, "cancelled_while_running": st.Cancelled, "scheduling_points": st.Points}
		for k, o := range st.BadOutcome {
			if strings.HasPrefix(o, "HARNESS") {
				r.HarnessError("%s: %s (schedule %v)", sc.name(), o, st.Bad[k])
				continue
			}
			sym := o
			for _, cut := range []string{"thread ", "a thread is left blocked", "cancelled while running but", "goroutine panic"} {
				if i := strings.Index(o, cut); i >= 0 {
					sym = cut
				}
			}
			if strings.Contains(o, "interpreted operations after") {
				sym = "operations executed after the cancellation"
			}
			if strings.Contains(o, "side effects") {
				sym = "side effects after the cancellation"
			}
			r.Fail(report.Failure{Key: sc.name() + " | " + strings.TrimSpace(sym), What: fmt.Sprintf("%s: schedule %v: %s", sc.name(), st.Bad[k], o), Case: map[string]interface{}{"scenario": sc.name(), "schedule": st.Bad[k], "outcome": o}})
		}
	}
	r.Set("evaluations", execs)
	r.Set("states", execs)
	r.Set("transitions", points)
	r.Set("traces_validated_against_impl", execs)
	r.Set("distinct_nontrivial", cancelledRuns)
	r.Set("executions_cancelled_while_running", cancelledRuns)
	r.Set("max_depth", maxDepth)
	r.Set("deviation_bound_completed", bound)
	r.Set("deviation_bound_round_d_programs", 1)
	r.Set("subtrees", len(jobs))
	r.Set("subtrees_capped", capped)
	r.Set("exhaustive", capped == 0 && len(res.Abnormal) == 0)
	r.Set("scenarios", per)
	r.Set("rule", "16 programs (busy loop, recursion, closure loop, host-driven callback loop with a function literal and with a declared function, deferred declared function and deferred closure doing work while the cancelled frame unwinds, goroutine tree, blocked send, blocked receive, select without default, range over channel, buffered producer/consumer, two consumers ranging over one buffered channel, package-variable initialiser + init + main, two inits) x 3 entry points (EvalWithContext, ExecuteWithContext, EvalPathWithContext on a virtual filesystem) x {fresh interpreter, interpreter that already completed a plain evaluation}; the canceller is an environment thread enabled at every scheduling point: every cancellation point k x every schedule with <= bound deviations from the default (run the current thread, else the lowest id; deviations = preemptions, other thread / select-case / rendezvous-partner choices; scheduling the canceller is free); non-trivial = executions in which the cancel landed while the evaluation was running")
	r.Assumptions = []string{"deferred native calls that run while a cancelled goroutine unwinds are not counted (the deferred functions of the family are interpreted)", "moments before the first interpreted operation (parse/compile) are outside 'k counted in interpreted operations'", "YAEGI_FAST_CHAN=1 is outside the property"}
	r.Sample(map[string]interface{}{"scenario": scs[0].name(), "schedule": []int{}, "src": family[0].Src})
	if len(jobs) > 0 {
		j := jobs[len(jobs)/2]
		r.Sample(map[string]interface{}{"scenario": scs[j.Sc].name(), "schedule_prefix": j.Prefix})
	}
	r.Finish()
}
