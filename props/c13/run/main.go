// C13: restricted mode. Four parts, each enumerated completely within stated bounds and executed in probe
// subprocesses (so that a script that really terminates the host, touches the host environment or writes to
// the host's file descriptors is observed from outside):
//
//	imports  - unsafe, syscall, os/exec x every import form (+ complete scan of the default table keys)
//	exit     - every process-exit entry point discovered in the default table (os.Exit, log.Fatal*, and the
//	           Fatal* methods of every way to obtain a logger) must surface as a recoverable panic
//	env      - explicit-state model checking of the virtual environment against a map model
//	streams  - every redirected I/O function uses Options.Std*/Args, nothing reaches the host's descriptors
package main

import (
	"bytes"
	"encoding/json"
	"fmt"
	"io"
	"os"
	"os/exec"
	"reflect"
	"sort"
	"strings"
	"testing/fstest"
	"time"

	"github.com/traefik/yaegi/interp"
	"github.com/traefik/yaegi/stdlib"
	"github.com/traefik/yaegi/stdlib/unrestricted"
	"verif/engine/par"
	"verif/engine/report"
)

type kase struct {
	Kind   string   `json:"kind"` // import | exit | env | stream
	Name   string   `json:"name"`
	Src    string   `json:"src,omitempty"`
	Pre    string   `json:"pre,omitempty"` // evaluated first (REPL form)
	Used   bool     `json:"import_used,omitempty"`
	EvilFS bool     `json:"evil_fs,omitempty"` // provide gp/src/evil importing the forbidden package
	Evil   string   `json:"evil_pkg,omitempty"`
	Env    []string `json:"env,omitempty"`  // Options.Env
	Ops    []string `json:"ops,omitempty"`  // env: path then the op under test (last)
	Want   string   `json:"want,omitempty"` // stream/exit: expected Options.Stdout content
	WantE  string   `json:"want_stderr_contains,omitempty"`
}

type probeReport struct {
	Err      string   `json:"err"`
	Out      string   `json:"out"`
	ErrOut   string   `json:"errout"`
	Obs      []string `json:"obs,omitempty"`   // env: script observation per op
	Model    []string `json:"model,omitempty"` // env: model observation per op
	HostSame bool     `json:"host_env_unchanged"`
	Done     bool     `json:"done"`
}

// ---------- the probe (child process) ----------

func probeMain() {
	var k kase
	if err := json.NewDecoder(os.Stdin).Decode(&k); err != nil {
		fmt.Fprintln(os.Stderr, "probe: bad input", err)
		os.Exit(4)
	}
	rep := probeReport{}
	report := os.NewFile(3, "report")
	emit := func() {
		b, _ := json.Marshal(rep)
		report.Write(append(b, '\n'))
	}
	before := append([]string{}, os.Environ()...)
	sort.Strings(before)
	if k.Kind == "multi" {
		probeMulti(k, &rep)
		after := append([]string{}, os.Environ()...)
		sort.Strings(after)
		rep.HostSame = strings.Join(before, "\x00") == strings.Join(after, "\x00")
		rep.Done = true
		emit()
		return
	}
	var out, errb bytes.Buffer
	opts := interp.Options{Stdout: &out, Stderr: &errb, Stdin: strings.NewReader("42 hello\n7\n"), Args: []string{"prog", "-n", "7", "rest"}, Env: k.Env}
	if k.EvilFS {
		opts.GoPath = "./gp"
		opts.SourcecodeFilesystem = fstest.MapFS{"gp/src/evil/evil.go": &fstest.MapFile{Data: []byte("package evil\n\nimport \"" + k.Evil + "\"\n\nvar X = 1\n\nvar _ = " + useOf(k.Evil, last(k.Evil)) + "\n")}}
	}
	i := interp.New(opts)
	if err := i.Use(stdlib.Symbols); err != nil {
		rep.Err = "Use: " + err.Error()
		emit()
		return
	}
	if k.Used {
		i.ImportUsed()
	}
	func() {
		defer func() {
			if r := recover(); r != nil {
				rep.Err = fmt.Sprint("HOSTPANIC: ", r)
			}
		}()
		switch k.Kind {
		case "env":
			model := map[string]string{}
			for _, e := range k.Env {
				kv := strings.SplitN(e, "=", 2)
				if len(kv) == 2 {
					model[kv[0]] = kv[1]
				} else {
					model[kv[0]] = ""
				}
			}
			for _, pre := range []string{`import ("os"; "sort"; "strings")`,
				"func vLookup(k string) string {\n\tv, ok := os.LookupEnv(k)\n\tif ok {\n\t\treturn \"ok:\" + v\n\t}\n\treturn \"absent\"\n}",
				"func vEnviron() string {\n\te := os.Environ()\n\tsort.Strings(e)\n\treturn strings.Join(e, \",\")\n}",
				"func vClear() bool {\n\tos.Clearenv()\n\treturn true\n}"} {
				if _, err := i.Eval(pre); err != nil {
					rep.Err = "env setup: " + err.Error()
					return
				}
			}
			for _, op := range k.Ops {
				o, m := envStep(i, model, op)
				rep.Obs = append(rep.Obs, o)
				rep.Model = append(rep.Model, m)
			}
		default:
			if k.Pre != "" {
				if _, err := i.Eval(k.Pre); err != nil {
					rep.Err = "pre: " + err.Error()
					return
				}
			}
			if _, err := i.Eval(k.Src); err != nil {
				rep.Err = err.Error()
			}
		}
	}()
	rep.Out, rep.ErrOut = out.String(), errb.String()
	after := append([]string{}, os.Environ()...)
	sort.Strings(after)
	rep.HostSame = strings.Join(before, "\x00") == strings.Join(after, "\x00")
	rep.Done = true
	emit()
}

// probeMulti: several interpreters in one host process must not share their virtualised state.
func probeMulti(k kase, rep *probeReport) {
	defer func() {
		if r := recover(); r != nil {
			rep.Err = fmt.Sprint("HOSTPANIC: ", r)
		}
	}()
	mk := func(env, args []string, out *bytes.Buffer, unrestrictedToo bool) *interp.Interpreter {
		i := interp.New(interp.Options{Stdout: out, Stderr: &bytes.Buffer{}, Env: env, Args: args})
		i.Use(stdlib.Symbols)
		if unrestrictedToo {
			i.Use(unrestricted.Symbols)
		}
		return i
	}
	var oa, ob bytes.Buffer
	switch k.Name {
	case "multi: two restricted interpreters, interleaved":
		a := mk([]string{"A=fromA"}, []string{"progA"}, &oa, false)
		b := mk([]string{"A=fromB"}, []string{"progB"}, &ob, false)
		if _, err := a.Eval("import (\"fmt\"; \"os\")\nfunc ShowA() { fmt.Println(os.Getenv(\"A\"), os.Args, os.Getenv(\"X\")) }"); err != nil {
			rep.Err = err.Error()
			return
		}
		if _, err := b.Eval("import (\"fmt\"; \"os\")\nfunc ShowB() { fmt.Println(os.Getenv(\"A\"), os.Args, os.Getenv(\"X\")) }"); err != nil {
			rep.Err = err.Error()
			return
		}
		a.Eval("os.Setenv(\"X\", \"setByA\")")
		a.Eval("ShowA()")
		b.Eval("ShowB()")
		b.Eval("os.Clearenv()")
		a.Eval("ShowA()")
	case "multi: restricted interpreter created after an unrestricted one":
		mk(nil, nil, &ob, true)
		a := mk(nil, nil, &oa, false)
		_, err := a.Eval("package main\n\nimport (\n\t\"fmt\"\n\t\"io\"\n\t\"log\"\n\t\"os\"\n)\n\nfunc try(f func()) {\n\tdefer func() { fmt.Println(\"recovered\", recover() != nil) }()\n\tf()\n}\n\nfunc main() {\n\ttry(func() { os.Exit(3) })\n\ttry(func() { log.Fatal(\"x\") })\n\ttry(func() { log.New(io.Discard, \"\", 0).Fatal(\"y\") })\n}\n")
		if err != nil {
			rep.Err = err.Error()
		}
	case "multi: restricted interpreter used while an unrestricted one exists":
		u := mk(nil, nil, &ob, true)
		a := mk([]string{"A=fromA"}, []string{"progA"}, &oa, false)
		u.Eval("import \"os\"")
		_, err := a.Eval("package main\n\nimport (\n\t\"fmt\"\n\t\"os\"\n)\n\nfunc main() {\n\tdefer func() { fmt.Println(\"recovered\", recover() != nil) }()\n\tfmt.Println(os.Getenv(\"A\"), os.Getenv(\"HOSTONLY\"), os.Args)\n\tos.Exit(4)\n}\n")
		if err != nil {
			rep.Err = err.Error()
		}
	}
	rep.Out = oa.String()
	rep.ErrOut = ob.String()
}

// envStep applies one operation to the script's environment and to the model; returns both observations.
func envStep(i *interp.Interpreter, model map[string]string, op string) (obs, want string) {
	f := strings.SplitN(op, " ", 3)
	q := func(s string) string { return fmt.Sprintf("%q", s) }
	eval := func(expr string) string {
		v, err := i.Eval(expr)
		if err != nil {
			return "ERR " + strings.SplitN(err.Error(), "\n", 2)[0]
		}
		if !v.IsValid() {
			return "<none>"
		}
		return fmt.Sprint(v.Interface())
	}
	environ := func() string {
		var l []string
		for k, v := range model {
			l = append(l, k+"="+v)
		}
		sort.Strings(l)
		return strings.Join(l, ",")
	}
	switch f[0] {
	case "Setenv":
		obs = eval("os.Setenv(" + q(f[1]) + ", " + q(f[2]) + ") == nil")
		model[f[1]] = f[2]
		want = "true"
	case "Unsetenv":
		obs = eval("os.Unsetenv(" + q(f[1]) + ") == nil")
		delete(model, f[1])
		want = "true"
	case "Clearenv":
		obs = eval("vClear()")
		for k := range model {
			delete(model, k)
		}
		want = "true"
	case "Getenv":
		obs = eval("os.Getenv(" + q(f[1]) + ")")
		want = model[f[1]]
	case "LookupEnv":
		obs = eval("vLookup(" + q(f[1]) + ")")
		if v, ok := model[f[1]]; ok {
			want = "ok:" + v
		} else {
			want = "absent"
		}
	case "ExpandEnv":
		obs = eval("os.ExpandEnv(" + q(f[1]) + ")")
		want = os.Expand(f[1], func(k string) string { return model[k] })
	case "Environ":
		want = environ()
	}
	// after every op the whole environment as the script sees it must be the model's
	all := eval("vEnviron()")
	if f[0] == "Environ" {
		obs = all
	}
	return obs + " | env=" + all, want + " | env=" + environ()
}

func last(p string) string { return p[strings.LastIndex(p, "/")+1:] }

func useOf(pkg, name string) string {
	switch pkg {
	case "unsafe":
		return name + ".Sizeof(0)"
	case "syscall":
		return name + ".Getpid()"
	}
	return name + ".Command(\"true\")"
}

// ---------- parent ----------

type fail struct {
	K      kase        `json:"case"`
	What   string      `json:"what"`
	Report probeReport `json:"probe"`
	Exit   int         `json:"exit_code"`
	Stdout string      `json:"host_stdout"`
	Stderr string      `json:"host_stderr"`
}

func runProbe(k kase) (rep probeReport, code int, so, se string, err error) {
	exe, _ := os.Executable()
	cmd := exec.Command(exe)
	in, _ := json.Marshal(k)
	cmd.Stdin = bytes.NewReader(in)
	var ob, eb bytes.Buffer
	cmd.Stdout, cmd.Stderr = &ob, &eb
	pr, pw, _ := os.Pipe()
	cmd.ExtraFiles = []*os.File{pw}
	env := []string{"C13_PROBE=1", "HOSTONLY=hostvalue", "A=hostA", "PATH=" + os.Getenv("PATH"), "HOME=" + os.Getenv("HOME"), "GOMAXPROCS=2"}
	cmd.Env = env
	// the probe parses the host's real command line if flag escapes: give it recognisable arguments
	cmd.Args = []string{exe, "-n", "999"}
	if err = cmd.Start(); err != nil {
		return
	}
	pw.Close()
	done := make(chan struct{})
	var rb []byte
	go func() { rb, _ = io.ReadAll(pr); close(done) }()
	werr := make(chan error, 1)
	go func() { werr <- cmd.Wait() }()
	select {
	case e := <-werr:
		if ee, ok := e.(*exec.ExitError); ok {
			code = ee.ExitCode()
		} else if e != nil {
			err = e
		}
	case <-time.After(60 * time.Second):
		cmd.Process.Kill()
		code = -1
	}
	<-done
	json.Unmarshal(bytes.TrimSpace(rb), &rep)
	return rep, code, ob.String(), eb.String(), err
}

func one(k kase) *fail {
	par.Count("probes", 1)
	par.Count("kind_"+k.Kind, 1)
	rep, code, so, se, err := runProbe(k)
	if err != nil {
		return &fail{K: k, What: "HARNESS: " + err.Error()}
	}
	f := &fail{K: k, Report: rep, Exit: code, Stdout: so, Stderr: se}
	bad := func(format string, a ...interface{}) *fail { f.What = fmt.Sprintf(format, a...); return f }
	if code != 0 || !rep.Done {
		return bad("the host process did not survive (exit code %d, report complete=%v): host stderr %q", code, rep.Done, tail(se))
	}
	if so != "" || se != "" {
		return bad("bytes reached the host's own stdout/stderr: stdout=%q stderr=%q", tail(so), tail(se))
	}
	if !rep.HostSame {
		return bad("the host environment was modified")
	}
	switch k.Kind {
	case "import":
		par.Distinct("obs", "import:"+fmt.Sprint(rep.Err != ""))
		if rep.Err == "" || strings.HasPrefix(rep.Err, "HOSTPANIC") {
			return bad("forbidden import accepted (err=%q, output=%q)", rep.Err, rep.Out)
		}
		if rep.Out != "" {
			return bad("something ran before the forbidden import was rejected: %q", rep.Out)
		}
	case "exit":
		par.Distinct("obs", "exit:"+rep.Out)
		if rep.Err != "" {
			return bad("script error instead of a recoverable panic: %s", rep.Err)
		}
		if rep.Out != k.Want {
			return bad("output %q, want %q (the exit call must panic and be recovered)", rep.Out, k.Want)
		}
	case "env":
		par.Count("env_steps", int64(len(rep.Obs)))
		if rep.Err != "" {
			return bad("error: %s", rep.Err)
		}
		for i := range rep.Obs {
			par.Distinct("obs", "env:"+rep.Model[i])
			if rep.Obs[i] != rep.Model[i] {
				return bad("step %d (%s): script observed %q, map model %q", i+1, k.Ops[i], rep.Obs[i], rep.Model[i])
			}
		}
	case "multi":
		par.Distinct("obs", "multi:"+rep.Out+"|"+rep.ErrOut)
		if rep.Err != "" {
			return bad("error: %s", rep.Err)
		}
		if rep.Out != k.Want || rep.ErrOut != k.WantE {
			return bad("interpreter A printed %q (want %q), interpreter B printed %q (want %q)", rep.Out, k.Want, rep.ErrOut, k.WantE)
		}
	case "stream":
		par.Distinct("obs", "stream:"+rep.Out+"|"+rep.ErrOut)
		if rep.Err != "" {
			return bad("error: %s", rep.Err)
		}
		if k.Want == "*" {
			if !strings.Contains(rep.Out+rep.ErrOut, k.WantE) {
				return bad("neither Options.Stdout (%q) nor Options.Stderr (%q) contains %q", rep.Out, rep.ErrOut, k.WantE)
			}
			return nil
		}
		if rep.Out != k.Want {
			return bad("Options.Stdout got %q, want %q", rep.Out, k.Want)
		}
		if !strings.Contains(rep.ErrOut, k.WantE) {
			return bad("Options.Stderr got %q, want it to contain %q", rep.ErrOut, k.WantE)
		}
	}
	return nil
}

func tail(s string) string {
	if len(s) > 300 {
		return "…" + s[len(s)-300:]
	}
	return s
}

// ---------- case enumeration ----------

func importCases() []kase {
	var ks []kase
	for _, p := range []string{"unsafe", "syscall", "os/exec"} {
		n := last(p)
		body := func(imp, use string) string {
			return "package main\n\n" + imp + "\n\nvar X = mark()\n\nfunc mark() int { println(\"MARK\"); print(\"\"); return 1 }\n\nfunc init() { fmtPrintln() }\n\nfunc fmtPrintln() {}\n\nfunc main() {\n\t_ = " + use + "\n}\n"
		}
		forms := []struct{ name, src, pre string }{
			{"plain", body("import \""+p+"\"", useOf(p, n)), ""},
			{"named", body("import zz \""+p+"\"", useOf(p, "zz")), ""},
			{"dot", body("import . \""+p+"\"", strings.TrimPrefix(useOf(p, "zz"), "zz.")), ""},
			{"blank", "package main\n\nimport _ \"" + p + "\"\n\nfunc main() {}\n", ""},
			{"grouped", body("import (\n\t\"strings\"\n\t\""+p+"\"\n)\n\nvar _ = strings.ToUpper", useOf(p, n)), ""},
			{"repl-line", "import \"" + p + "\"", "x := 1"},
			{"repl-use-after-failed-import", useOf(p, n), ""},
		}
		for _, f := range forms {
			ks = append(ks, kase{Kind: "import", Name: p + " " + f.name, Src: f.src, Pre: f.pre})
		}
		ks = append(ks, kase{Kind: "import", Name: p + " via-source-package", Src: "package main\n\nimport \"evil\"\n\nfunc main() { _ = evil.X }\n", EvilFS: true, Evil: p})
		ks = append(ks, kase{Kind: "import", Name: p + " after-ImportUsed", Src: useOf(p, n), Used: true})
		ks = append(ks, kase{Kind: "import", Name: p + " after-ImportUsed-qualified", Src: useOf(p, strings.ReplaceAll(p, "/", "_")), Used: true})
	}
	return ks
}

var loggerT = reflect.TypeOf((*interface {
	Fatal(...interface{})
	Fatalf(string, ...interface{})
	Fatalln(...interface{})
})(nil)).Elem()

// argFor synthesises an argument expression for a parameter type (imports collected in need).
func argFor(t reflect.Type, need map[string]bool) (string, bool) {
	switch t.String() {
	case "io.Writer":
		need["io"] = true
		return "io.Discard", true
	case "string":
		return `"p"`, true
	case "int":
		return "0", true
	case "slog.Handler":
		need["io"], need["log/slog"] = true, true
		return "slog.NewTextHandler(io.Discard, nil)", true
	case "slog.Level":
		need["log/slog"] = true
		return "slog.LevelInfo", true
	}
	return "", false
}

func exitCases(r *report.Run) []kase {
	var ks []kase
	prog := func(imports map[string]bool, body string) string {
		var il []string
		for p := range imports {
			il = append(il, "\t\""+p+"\"")
		}
		sort.Strings(il)
		return "package main\n\nimport (\n" + strings.Join(il, "\n") + "\n)\n\nfunc main() {\n\tdefer func() {\n\t\tr := recover()\n\t\tfmt.Println(\"recovered\", r != nil)\n\t}()\n" + body + "\n\tfmt.Println(\"NOT REACHED\")\n}\n"
	}
	add := func(name string, imports map[string]bool, body string) {
		imports["fmt"] = true
		ks = append(ks, kase{Kind: "exit", Name: name, Src: prog(imports, body), Want: "recovered true\n"})
	}
	add("os.Exit", map[string]bool{"os": true}, "\tos.Exit(3)")
	add("log.Fatal", map[string]bool{"log": true}, "\tlog.Fatal(\"x\")")
	add("log.Fatalf", map[string]bool{"log": true}, "\tlog.Fatalf(\"%d\", 1)")
	add("log.Fatalln", map[string]bool{"log": true}, "\tlog.Fatalln(\"x\")")
	// discovery: every function / variable of the default table that yields something with Fatal methods
	var sources []struct {
		name, expr string
		imports    map[string]bool
	}
	skipped := 0
	var pkgs []string
	for k := range stdlib.Symbols {
		pkgs = append(pkgs, k)
	}
	sort.Strings(pkgs)
	for _, key := range pkgs {
		if !strings.Contains(key, "/") {
			continue
		}
		path := key[:strings.LastIndex(key, "/")]
		if path == "testing" || strings.HasPrefix(path, "github.com") {
			continue // testing.T/B/F Fatal are not process-exit calls
		}
		var names []string
		for n := range stdlib.Symbols[key] {
			names = append(names, n)
		}
		sort.Strings(names)
		for _, n := range names {
			v := stdlib.Symbols[key][n]
			if !v.IsValid() {
				continue
			}
			t := v.Type()
			switch {
			case t.Kind() == reflect.Func:
				for o := 0; o < t.NumOut(); o++ {
					if !t.Out(o).Implements(loggerT) {
						continue
					}
					need := map[string]bool{path: true}
					var args []string
					ok := true
					for a := 0; a < t.NumIn(); a++ {
						at := t.In(a)
						if t.IsVariadic() && a == t.NumIn()-1 {
							break
						}
						s, can := argFor(at, need)
						if !can {
							ok = false
							break
						}
						args = append(args, s)
					}
					if !ok {
						skipped++
						r.Add("logger_sources_not_synthesisable", 1)
						continue
					}
					lhs := "l"
					if t.NumOut() > 1 {
						l := make([]string, t.NumOut())
						for x := range l {
							l[x] = "_"
						}
						l[o] = "l"
						lhs = strings.Join(l, ", ")
					}
					sources = append(sources, struct {
						name, expr string
						imports    map[string]bool
					}{path + "." + n, lhs + " := " + last(path) + "." + n + "(" + strings.Join(args, ", ") + ")", need})
				}
			case t.Kind() == reflect.Ptr && t.Elem().Kind() != reflect.Interface && v.IsNil() && !strings.HasPrefix(n, "_"):
				// a type entry (*T)(nil): zero value and new(T)
				if t.Implements(loggerT) && t.Elem().Kind() == reflect.Struct {
					sources = append(sources, struct {
						name, expr string
						imports    map[string]bool
					}{path + "." + n + " (new)", "l := new(" + last(path) + "." + n + ")", map[string]bool{path: true}})
				}
			case v.CanAddr() && t.Implements(loggerT):
				sources = append(sources, struct {
					name, expr string
					imports    map[string]bool
				}{path + "." + n + " (var)", "l := " + last(path) + "." + n, map[string]bool{path: true}})
			}
		}
	}
	for _, s := range sources {
		for _, m := range []string{"Fatal(\"x\")", "Fatalf(\"%d\", 1)", "Fatalln(\"x\")"} {
			imports := map[string]bool{}
			for k := range s.imports {
				imports[k] = true
			}
			add(s.name+" ."+m[:strings.Index(m, "(")], imports, "\t"+s.expr+"\n\tl."+m)
		}
	}
	r.Set("logger_sources_discovered", len(sources))
	return ks
}

func envCases(thorough bool) []kase {
	keys := []string{"A", "B", "HOSTONLY"}
	vals := []string{"", "1", "$A"}
	var ops []string
	for _, k := range keys {
		for _, v := range vals {
			ops = append(ops, "Setenv "+k+" "+v)
		}
		ops = append(ops, "Unsetenv "+k, "Getenv "+k, "LookupEnv "+k)
	}
	ops = append(ops, "Clearenv", "Environ", "ExpandEnv $A-${B}-$HOSTONLY")
	// initial Options.Env: empty, plain, empty value, no "=" at all, and values that themselves contain "="
	inits := [][]string{nil, {"A=1"}, {"A=1", "B="}, {"A"}, {"A=x=y", "B=="}, {"A=-f=1", "B=http://h/p?a=1&b=2"}}
	var ks []kase
	// explicit-state search over the model: states = maps over the three keys; one shortest path per state, then every op from it
	for _, init := range inits {
		type st struct {
			m    map[string]string
			path []string
		}
		canon := func(m map[string]string) string {
			var l []string
			for k, v := range m {
				l = append(l, k+"="+v)
			}
			sort.Strings(l)
			return strings.Join(l, ",")
		}
		start := map[string]string{}
		for _, e := range init {
			kv := strings.SplitN(e, "=", 2)
			if len(kv) == 2 {
				start[kv[0]] = kv[1]
			} else {
				start[kv[0]] = ""
			}
		}
		seen := map[string]bool{canon(start): true}
		queue := []st{{start, nil}}
		for len(queue) > 0 {
			cur := queue[0]
			queue = queue[1:]
			for _, op := range ops {
				ks = append(ks, kase{Kind: "env", Name: fmt.Sprintf("env init=%v state={%s} op=%s", init, canon(cur.m), op), Env: init, Ops: append(append([]string{}, cur.path...), op)})
				f := strings.SplitN(op, " ", 3)
				nm := map[string]string{}
				for k, v := range cur.m {
					nm[k] = v
				}
				switch f[0] {
				case "Setenv":
					nm[f[1]] = f[2]
				case "Unsetenv":
					delete(nm, f[1])
				case "Clearenv":
					nm = map[string]string{}
				default:
					continue
				}
				if c := canon(nm); !seen[c] {
					seen[c] = true
					queue = append(queue, st{nm, append(append([]string{}, cur.path...), op)})
				}
			}
		}
	}
	// all sequences of length <= 2 (thorough: 3) from the empty and the A=1 environment, not de-duplicated
	depth := 2
	if thorough {
		depth = 3
	}
	var seqs func(prefix []string, d int, init []string)
	seqs = func(prefix []string, d int, init []string) {
		if len(prefix) > 0 {
			ks = append(ks, kase{Kind: "env", Name: fmt.Sprintf("envseq init=%v %s", init, strings.Join(prefix, " ; ")), Env: init, Ops: append([]string{}, prefix...)})
		}
		if d == 0 {
			return
		}
		for _, op := range ops {
			seqs(append(append([]string{}, prefix...), op), d-1, init)
		}
	}
	seqs(nil, depth, nil)
	seqs(nil, depth, []string{"A=1"})
	return ks
}

func streamCases() []kase {
	p := func(imports, body string) string {
		return "package main\n\nimport (\n" + imports + ")\n\nfunc main() {\n" + body + "}\n"
	}
	return []kase{
		{Kind: "stream", Name: "fmt.Print", Src: p("\t\"fmt\"\n", "\tfmt.Print(\"a\", 1)\n"), Want: "a1"},
		{Kind: "stream", Name: "fmt.Printf", Src: p("\t\"fmt\"\n", "\tfmt.Printf(\"%d-%s\", 1, \"b\")\n"), Want: "1-b"},
		{Kind: "stream", Name: "fmt.Println", Src: p("\t\"fmt\"\n", "\tfmt.Println(\"a\", 1)\n"), Want: "a 1\n"},
		// the statement does not say which of the Options streams the builtins use: either is accepted (Want "*")
		{Kind: "stream", Name: "print builtin", Src: "package main\n\nfunc main() {\n\tprint(\"abc\")\n}\n", Want: "*", WantE: "abc"},
		{Kind: "stream", Name: "println builtin", Src: "package main\n\nfunc main() {\n\tprintln(\"abc\")\n}\n", Want: "*", WantE: "abc\n"},
		{Kind: "stream", Name: "fmt.Scan", Src: p("\t\"fmt\"\n", "\tvar n int\n\tvar s string\n\tfmt.Scan(&n, &s)\n\tfmt.Println(n, s)\n"), Want: "42 hello\n"},
		{Kind: "stream", Name: "fmt.Scanln", Src: p("\t\"fmt\"\n", "\tvar n int\n\tvar s string\n\tfmt.Scanln(&n, &s)\n\tfmt.Println(n, s)\n"), Want: "42 hello\n"},
		{Kind: "stream", Name: "fmt.Scanf", Src: p("\t\"fmt\"\n", "\tvar n int\n\tvar s string\n\tfmt.Scanf(\"%d %s\", &n, &s)\n\tfmt.Println(n, s)\n"), Want: "42 hello\n"},
		{Kind: "stream", Name: "log.Print", Src: p("\t\"log\"\n", "\tlog.SetFlags(0)\n\tlog.Print(\"L1\")\n"), WantE: "L1\n"},
		{Kind: "stream", Name: "log.Printf", Src: p("\t\"log\"\n", "\tlog.SetFlags(0)\n\tlog.Printf(\"L%d\", 2)\n"), WantE: "L2\n"},
		{Kind: "stream", Name: "log.Println", Src: p("\t\"log\"\n", "\tlog.SetFlags(0)\n\tlog.Println(\"L3\")\n"), WantE: "L3\n"},
		{Kind: "stream", Name: "log.Output", Src: p("\t\"log\"\n", "\tlog.SetFlags(0)\n\tlog.Output(1, \"L4\")\n"), WantE: "L4\n"},
		{Kind: "stream", Name: "log.Panic", Src: p("\t\"log\"\n", "\tdefer func() { recover() }()\n\tlog.SetFlags(0)\n\tlog.Panic(\"L5\")\n"), WantE: "L5\n"},
		{Kind: "stream", Name: "log.Default().Print", Src: p("\t\"log\"\n", "\tlog.Default().Print(\"L6\")\n"), WantE: "L6\n"},
		{Kind: "stream", Name: "log.Default().Writer", Src: p("\t\"fmt\"\n\t\"log\"\n", "\tfmt.Fprint(log.Default().Writer(), \"L7\")\n"), WantE: "L7"},
		{Kind: "stream", Name: "log.Writer", Src: p("\t\"fmt\"\n\t\"log\"\n", "\tfmt.Fprint(log.Writer(), \"L8\")\n"), WantE: "L8"},
		{Kind: "stream", Name: "os.Args", Src: p("\t\"fmt\"\n\t\"os\"\n", "\tfmt.Println(os.Args)\n"), Want: "[prog -n 7 rest]\n"},
		{Kind: "stream", Name: "flag.Parse", Src: p("\t\"flag\"\n\t\"fmt\"\n", "\tn := flag.Int(\"n\", 0, \"\")\n\tflag.Parse()\n\tfmt.Println(*n, flag.Args())\n"), Want: "7 [rest]\n"},
		{Kind: "stream", Name: "flag.CommandLine.Parse", Src: p("\t\"flag\"\n\t\"fmt\"\n\t\"os\"\n", "\tn := flag.CommandLine.Int(\"n\", 0, \"\")\n\tflag.CommandLine.Parse(os.Args[1:])\n\tfmt.Println(*n, flag.CommandLine.Args(), flag.NArg())\n"), Want: "7 [rest] 1\n"},
		{Kind: "stream", Name: "flag.Usage output", Src: p("\t\"flag\"\n", "\tflag.Int(\"n\", 0, \"the n\")\n\tflag.PrintDefaults()\n"), WantE: "the n"},
		{Kind: "stream", Name: "flag.Arg/NFlag", Src: p("\t\"flag\"\n\t\"fmt\"\n", "\tflag.Int(\"n\", 0, \"\")\n\tflag.Parse()\n\tfmt.Println(flag.Arg(0), flag.NFlag())\n"), Want: "rest 1\n"},
	}
}

func main() {
	if os.Getenv("C13_PROBE") != "" {
		probeMain()
		return
	}
	r := report.Start("C13", "model_checking")
	if r.Replay != "" {
		var cs []fail
		if err := report.ReadReplay(r.Replay, &cs); err != nil {
			fmt.Fprintln(os.Stderr, "HARNESS-ERROR:", err)
			os.Exit(3)
		}
		bad := 0
		for _, c := range cs {
			if f := one(c.K); f != nil {
				bad++
				fmt.Printf("replay %s: %s\n--- script ---\n%s\n%v\n", c.K.Name, f.What, c.K.Src, c.K.Ops)
			} else {
				fmt.Println("replay: holds now:", c.K.Name)
			}
		}
		if bad > 0 {
			fmt.Printf("VIOLATION property=C13 replay=%s\n", r.Replay)
			os.Exit(1)
		}
		os.Exit(0)
	}
	var ks []kase
	ks = append(ks, importCases()...)
	ks = append(ks, exitCases(r)...)
	envK := envCases(r.Thorough())
	ks = append(ks, envK...)
	ks = append(ks, streamCases()...)
	ks = append(ks,
		kase{Kind: "multi", Name: "multi: two restricted interpreters, interleaved", Want: "fromA [progA] setByA\nfromA [progA] setByA\n", WantE: "fromB [progB] \n"},
		kase{Kind: "multi", Name: "multi: restricted interpreter created after an unrestricted one", Want: "recovered true\nrecovered true\nrecovered true\n", WantE: ""},
		kase{Kind: "multi", Name: "multi: restricted interpreter used while an unrestricted one exists", Want: "fromA  [progA]\nrecovered true\n", WantE: ""},
	)
	// complete scan of the default table for forbidden package keys
	for key := range stdlib.Symbols {
		for _, p := range []string{"unsafe", "syscall", "os/exec"} {
			if strings.HasPrefix(key, p+"/") {
				r.Fail(report.Failure{Key: "default table contains " + key, What: "the default symbol table has an entry for the forbidden package " + p, Case: key})
			}
		}
	}
	r.Set("default_table_packages_scanned", len(stdlib.Symbols))
	res := par.Map(len(ks), func(i int) *fail { return one(ks[i]) }, par.Opts{CaseTimeout: 120 * 1e9})
	for _, f := range res.Outs {
		if strings.HasPrefix(f.What, "HARNESS") {
			r.HarnessError("%s: %s", f.K.Name, f.What)
			continue
		}
		key := f.K.Kind + ": " + f.K.Name
		if f.K.Kind == "env" {
			// an env finding is the last operation and the kind of disagreement, whatever the path
			key = "env: " + f.K.Ops[len(f.K.Ops)-1] + " :: " + strings.SplitN(f.What, ":", 2)[0]
		}
		r.Fail(report.Failure{Key: key, What: f.K.Name + ": " + f.What, Case: f})
	}
	for _, a := range res.Abnormal {
		r.HarnessError("%s: checker worker %s", ks[a.Idx].Name, a.Kind)
	}
	n := res.Counts["probes"]
	r.Set("evaluations", n)
	r.Set("states", len(res.Sets["obs"]))
	r.Set("transitions", res.Counts["env_steps"]+n-res.Counts["kind_env"])
	r.Set("traces_validated_against_impl", n)
	r.Set("distinct_nontrivial", len(res.Sets["obs"]))
	for _, k := range []string{"import", "exit", "env", "stream", "multi"} {
		r.Set("cases_"+k, res.Counts["kind_"+k])
	}
	r.Set("exhaustive", true)
	r.Set("rule", "imports: 3 forbidden packages x 10 import forms; exit: os.Exit, log.Fatal* and Fatal/Fatalf/Fatalln on every logger source discovered by reflection in the default table; env: BFS to closure over map-model states (3 keys x 3 values) from 6 initial Options.Env (incl. values containing an equals sign), every op from every state, plus all op sequences of length <= 2 (thorough 3); streams: 21 redirected I/O uses; multi: several interpreters (restricted / unrestricted) in one host process keep separate environments, arguments, streams and exit overrides; every case runs in its own probe process whose exit status, real stdout/stderr and environment are observed from outside; states = distinct observations")
	r.Assumptions = []string{"writing to os.Stdout/os.Stderr explicitly is a documented escape and is not demanded", "reference model of the environment = a plain map"}
	for _, i := range []int{0, len(ks) / 2, len(ks) - 1} {
		r.Sample(ks[i])
	}
	r.Finish()
}
