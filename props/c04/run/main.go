// C04: copy-versus-share semantics. Every operation sequence (bounded) over a pool of
// nested composite variables, whole pool shown after every step, against the ops compiled natively.
package main

import (
	"bytes"
	"encoding/json"
	"errors"
	"fmt"
	"os"
	"path/filepath"
	"reflect"
	"sort"
	"strings"
	"unsafe"

	"github.com/traefik/yaegi/interp"
	"verif/engine/par"
	"verif/engine/report"
	"verif/engine/twin/h"
	ops "verif/gen/c04ops"
)

type obs struct {
	Out   string `json:"out"`
	Panic bool   `json:"panic"`
	Err   string `json:"err,omitempty"`
}

func native(seq []int) (o obs) {
	h.Cur = &bytes.Buffer{}
	defer func() {
		if r := recover(); r != nil {
			o.Panic = true
		}
		o.Out = h.Cur.String()
	}()
	ops.Reset()
	ops.ShowAll()
	for _, k := range seq {
		ops.Ops[k].F()
		ops.ShowAll()
	}
	return
}

func newInterp(buf *bytes.Buffer) *interp.Interpreter {
	steps := 0
	i := interp.New(interp.Options{Stdout: buf, Stderr: &bytes.Buffer{}})
	if err := i.Use(h.Exports(buf, &steps)); err != nil {
		panic(err)
	}
	return i
}

func script(seq []int) string {
	var b strings.Builder
	b.WriteString("package main\n\nimport . \"verif/engine/twin/h\"\n\n" + ops.DeclTypes + "\nfunc main() {\n" + ops.PoolVars + ops.InitBody + ops.ShowStmt + "\n")
	for _, k := range seq {
		b.WriteString(ops.Ops[k].Text + "\n" + ops.ShowStmt + "\n")
	}
	b.WriteString("}\n")
	return b.String()
}

func finish(buf *bytes.Buffer, err error, o *obs) {
	o.Out = buf.String()
	if err != nil {
		var p interp.Panic
		if errors.As(err, &p) {
			o.Panic = true
		} else {
			o.Err = first(err.Error())
		}
	}
}

func first(s string) string {
	if i := strings.IndexByte(s, '\n'); i >= 0 {
		s = s[:i]
	}
	return s
}

// interpLocal: the pool as locals of main, the history as one program.
func interpLocal(seq []int) (o obs) {
	var buf bytes.Buffer
	defer func() {
		if r := recover(); r != nil {
			o.Out, o.Err = buf.String(), fmt.Sprint("host panic: ", r)
		}
	}()
	i := newInterp(&buf)
	_, err := i.Eval(script(seq))
	finish(&buf, err, &o)
	return
}

// interpGlobal: the pool as package-level variables; every op is defined and run by its own Eval calls.
func interpGlobal(seq []int) (o obs) {
	var buf bytes.Buffer
	defer func() {
		if r := recover(); r != nil {
			o.Out, o.Err = buf.String(), fmt.Sprint("host panic: ", r)
		}
	}()
	i := newInterp(&buf)
	_, err := i.Eval("package main\n\nimport . \"verif/engine/twin/h\"\n\n" + ops.DeclTypes + "\n" + ops.PoolVars + "\nfunc reset() {\n" + ops.InitBody + "}\n\nfunc showAll() {\n" + ops.ShowStmt + "\n}\n")
	if err == nil {
		_, err = i.Eval("reset()\nshowAll()")
	}
	for n, k := range seq {
		if err != nil {
			break
		}
		// the op becomes a function over the package-level pool, defined and called by later Eval calls
		if _, err = i.Eval(fmt.Sprintf("func op%d() {\n%s\n}", n, ops.Ops[k].Text)); err == nil {
			_, err = i.Eval(fmt.Sprintf("op%d()\nshowAll()", n))
		}
	}
	finish(&buf, err, &o)
	return
}

func same(n, i obs) bool { return i.Err == "" && n.Out == i.Out && n.Panic == i.Panic }

type job struct {
	Seq   []int  `json:"seq"`
	Place string `json:"place"` // local | global
	Layer string `json:"layer"`
}

type fail struct {
	Job    job      `json:"job"`
	Ops    []string `json:"ops"`
	Native obs      `json:"native"`
	Interp obs      `json:"interp"`
}

func seqName(place string, seq []int) string {
	var n []string
	for _, k := range seq {
		n = append(n, strings.ReplaceAll(ops.Ops[k].Text, "\n", " "))
	}
	return place + ": " + strings.Join(n, " ;; ")
}

func runJob(j job) *fail {
	n := native(j.Seq)
	var it obs
	if j.Place == "local" {
		it = interpLocal(j.Seq)
	} else {
		it = interpGlobal(j.Seq)
	}
	par.Count("programs", 1)
	par.Count("steps", int64(strings.Count(n.Out, "\n")))
	if n.Panic {
		par.Count("native_panics", 1)
	}
	for _, l := range strings.Split(n.Out, "\n") {
		if l != "" {
			par.Distinct("poolstates", hash(l))
		}
	}
	if same(n, it) {
		return nil
	}
	var texts []string
	for _, k := range j.Seq {
		texts = append(texts, ops.Ops[k].Text)
	}
	return &fail{Job: j, Ops: texts, Native: n, Interp: it}
}

func hash(s string) string {
	var h uint64 = 1469598103934665603
	for i := 0; i < len(s); i++ {
		h = (h ^ uint64(s[i])) * 1099511628211
	}
	return fmt.Sprintf("%x", h)
}

// ---- alias-aware canonical state of the native pool (layer 2) ----

type region struct{ lo, hi uintptr }

type canon struct {
	regs  []region
	maps  map[uintptr]int
	funcs map[uintptr]int
	b     strings.Builder
}

func (c *canon) collect(v reflect.Value) {
	switch v.Kind() {
	case reflect.Ptr:
		if !v.IsNil() {
			c.regs = append(c.regs, region{v.Pointer(), v.Pointer() + v.Type().Elem().Size()})
			c.collect(v.Elem())
		}
	case reflect.Slice:
		if !v.IsNil() && v.Cap() > 0 {
			es := v.Type().Elem().Size()
			c.regs = append(c.regs, region{v.Pointer(), v.Pointer() + uintptr(v.Cap())*es})
			full := v.Slice3(0, v.Cap(), v.Cap())
			for i := 0; i < full.Len(); i++ {
				c.collect(full.Index(i))
			}
		}
	case reflect.Array:
		for i := 0; i < v.Len(); i++ {
			c.collect(v.Index(i))
		}
	case reflect.Struct:
		for i := 0; i < v.NumField(); i++ {
			c.collect(v.Field(i))
		}
	case reflect.Map:
		it := v.MapRange()
		for it.Next() {
			c.collect(it.Value())
		}
	}
}

func (c *canon) loc(p uintptr) string {
	for i, r := range c.regs {
		if p >= r.lo && p < r.hi {
			return fmt.Sprintf("@%d+%d", i, p-r.lo)
		}
	}
	return "@?"
}

func (c *canon) dump(v reflect.Value) {
	switch v.Kind() {
	case reflect.Int:
		fmt.Fprintf(&c.b, "%d ", v.Int())
	case reflect.String:
		fmt.Fprintf(&c.b, "%q ", v.String())
	case reflect.Ptr:
		if v.IsNil() {
			c.b.WriteString("nil ")
		} else {
			c.b.WriteString("P" + c.loc(v.Pointer()) + " ")
		}
	case reflect.Slice:
		if v.IsNil() {
			c.b.WriteString("nilS ")
			return
		}
		fmt.Fprintf(&c.b, "S%s/%d/%d[", c.loc(v.Pointer()), v.Len(), v.Cap())
		if v.Cap() > 0 {
			full := v.Slice3(0, v.Cap(), v.Cap())
			for i := 0; i < full.Len(); i++ {
				c.dump(full.Index(i))
			}
		}
		c.b.WriteString("] ")
	case reflect.Array:
		c.b.WriteString("[")
		for i := 0; i < v.Len(); i++ {
			c.dump(v.Index(i))
		}
		c.b.WriteString("] ")
	case reflect.Struct:
		c.b.WriteString("{")
		for i := 0; i < v.NumField(); i++ {
			c.dump(v.Field(i))
		}
		c.b.WriteString("} ")
	case reflect.Map:
		if v.IsNil() {
			c.b.WriteString("nilM ")
			return
		}
		id, ok := c.maps[v.Pointer()]
		if !ok {
			id = len(c.maps)
			c.maps[v.Pointer()] = id
		}
		fmt.Fprintf(&c.b, "M%d{", id)
		keys := v.MapKeys()
		sort.Slice(keys, func(i, j int) bool { return keys[i].String() < keys[j].String() })
		for _, k := range keys {
			fmt.Fprintf(&c.b, "%q:", k.String())
			c.dump(v.MapIndex(k))
		}
		c.b.WriteString("} ")
	case reflect.Func:
		if v.IsNil() {
			c.b.WriteString("nilF ")
			return
		}
		id, ok := c.funcs[v.Pointer()]
		if !ok {
			id = len(c.funcs)
			c.funcs[v.Pointer()] = id
		}
		fmt.Fprintf(&c.b, "F%d ", id)
	default:
		panic("canon: unexpected kind " + v.Kind().String())
	}
}

var rootOrder = []string{"ar", "br", "st", "su", "sl", "sm", "ss", "as", "ms", "pt", "pi", "i", "j", "fn"}
var funcIDs = map[uintptr]int{} // code pointers are stable for the process: ids by first use are canonical per closure literal

// canonical returns a string that determines all futures of the native pool: all reachable values
// (slices up to their capacity) plus the alias structure (regions = merged address intervals, numbered in
// a fixed traversal order; pointers and slices as region+offset; maps and closures by identity).
func canonical() string {
	c := &canon{maps: map[uintptr]int{}, funcs: funcIDs}
	roots := ops.Roots()
	var regs []region
	for _, n := range rootOrder {
		rv := reflect.ValueOf(roots[n])
		regs = append(regs, region{rv.Pointer(), rv.Pointer() + rv.Type().Elem().Size()})
	}
	c.regs = nil
	for _, n := range rootOrder {
		c.collect(reflect.ValueOf(roots[n]).Elem())
	}
	all := append(regs, c.regs...)
	// merge overlapping intervals, keep the order of first appearance
	merged := []region{}
	for _, r := range all {
		placed := false
		for k := range merged {
			if r.lo < merged[k].hi && merged[k].lo < r.hi {
				if r.lo < merged[k].lo {
					merged[k].lo = r.lo
				}
				if r.hi > merged[k].hi {
					merged[k].hi = r.hi
				}
				placed = true
				break
			}
		}
		if !placed {
			merged = append(merged, r)
		}
	}
	// a widened region may now touch another one: repeat until stable
	for changed := true; changed; {
		changed = false
		for a := 0; a < len(merged) && !changed; a++ {
			for b := a + 1; b < len(merged); b++ {
				if merged[a].lo < merged[b].hi && merged[b].lo < merged[a].hi {
					if merged[b].lo < merged[a].lo {
						merged[a].lo = merged[b].lo
					}
					if merged[b].hi > merged[a].hi {
						merged[a].hi = merged[b].hi
					}
					merged = append(merged[:b], merged[b+1:]...)
					changed = true
					break
				}
			}
		}
	}
	c.regs = merged
	for _, n := range rootOrder {
		c.dump(reflect.ValueOf(roots[n]).Elem())
	}
	_ = unsafe.Pointer(nil)
	return c.b.String()
}

// bfs explores the reference model: states = alias-aware canonical pool states; returns one shortest
// op sequence per distinct state of depth fromDepth..maxDepth (states up to fromDepth-1 are covered by layer 1).
func bfs(maxDepth, capStates int) (seqs [][]int, states, transitions int, perDepth []int, capped bool) {
	seen := map[string]bool{}
	ops.Reset()
	seen[canonical()] = true
	frontier := [][]int{{}}
	perDepth = []int{1}
	for d := 1; d <= maxDepth && !capped; d++ {
		var next [][]int
		for _, s := range frontier {
			for k := range ops.Ops {
				seq := append(append([]int{}, s...), k)
				transitions++
				ok := func() (ok bool) {
					defer func() {
						if recover() != nil {
							ok = false
						}
					}()
					h.Cur = &bytes.Buffer{}
					ops.Reset()
					for _, o := range seq {
						ops.Ops[o].F()
					}
					return true
				}()
				if !ok {
					continue // a panicking op ends the history (covered as such by layer 1)
				}
				key := canonical()
				if seen[key] {
					continue
				}
				seen[key] = true
				next = append(next, seq)
				if len(seen) >= capStates {
					capped = true
					break
				}
			}
			if capped {
				break
			}
		}
		perDepth = append(perDepth, len(next))
		if d >= 3 {
			seqs = append(seqs, next...)
		}
		frontier = next
	}
	return seqs, len(seen), transitions, perDepth, capped
}

func main() {
	r := report.Start("C04", "model_checking")
	if r.Replay != "" {
		replay(r)
	}
	r.Assumptions = []string{
		"reference = the ops compiled by gc as closures over a native pool; the interpreter gets the identical op texts",
		"bounded: all sequences up to length 3 (quick: length 3 over the core ops) + one shortest sequence per alias-aware canonical reference state up to the BFS depth",
	}
	// ---- layer 1: all sequences, no de-duplication, two placements
	var jobs []job
	n := len(ops.Ops)
	for _, place := range []string{"local", "global"} {
		jobs = append(jobs, job{Seq: []int{}, Place: place, Layer: "l1"})
		for a := 0; a < n; a++ {
			jobs = append(jobs, job{Seq: []int{a}, Place: place, Layer: "l1"})
			for b := 0; b < n; b++ {
				jobs = append(jobs, job{Seq: []int{a, b}, Place: place, Layer: "l1"})
				for c := 0; c < n; c++ {
					if r.Thorough() || (ops.Ops[a].Core && ops.Ops[b].Core && ops.Ops[c].Core) {
						jobs = append(jobs, job{Seq: []int{a, b, c}, Place: place, Layer: "l1"})
					}
				}
			}
		}
	}
	res := par.Map(len(jobs), func(i int) *fail { return runJob(jobs[i]) }, par.Opts{Name: "l1"})
	var fails []fail
	collect := func(res par.Result[fail], js []job) {
		for _, f := range res.Outs {
			fails = append(fails, f)
		}
		for _, a := range res.Abnormal {
			j := js[a.Idx]
			fails = append(fails, fail{Job: j, Native: obs{}, Interp: obs{Err: "interpreter " + a.Kind}})
		}
		r.Add("evaluations", res.Counts["programs"])
		r.Add("traces_validated_against_impl", res.Counts["programs"])
		r.Add("steps_shown", res.Counts["steps"])
		r.Add("native_panicking_histories", res.Counts["native_panics"])
	}
	collect(res, jobs)
	l1states := len(res.Sets["poolstates"])
	r.Set("layer1_sequences", len(jobs))
	r.Set("layer1_distinct_pool_lines", l1states)

	// ---- layer 2: explicit-state BFS over the reference model, each new state replayed on the interpreter
	depth, capStates := 3, 600000
	if r.Thorough() {
		depth, capStates = 5, 300000
	}
	bfsFile := filepath.Join(report.Root, ".work", "c04_bfs.json")
	var bjobs []job
	if !par.IsWorker() {
		seqs, states, trans, perDepth, capped := bfs(depth, capStates)
		for _, s := range seqs {
			bjobs = append(bjobs, job{Seq: s, Place: "local", Layer: "bfs"})
		}
		os.MkdirAll(filepath.Dir(bfsFile), 0o755)
		b, _ := json.Marshal(bjobs)
		if err := os.WriteFile(bfsFile, b, 0o644); err != nil {
			r.HarnessError("cannot write %s: %v", bfsFile, err)
		}
		r.Set("states", states)
		r.Set("transitions", trans)
		r.Set("bfs_states_per_depth", perDepth)
		r.Set("bfs_depth", depth)
		r.Set("bfs_capped", capped)
		r.Set("exhaustive", !capped)
	} else {
		b, err := os.ReadFile(bfsFile)
		if err != nil || json.Unmarshal(b, &bjobs) != nil {
			fmt.Fprintln(os.Stderr, "HARNESS-ERROR: worker cannot read", bfsFile)
			os.Exit(3)
		}
	}
	if len(bjobs) > 0 {
		res2 := par.Map(len(bjobs), func(i int) *fail { return runJob(bjobs[i]) }, par.Opts{Name: "bfs"})
		collect(res2, bjobs)
		for k := range res2.Sets["poolstates"] {
			res.Sets["poolstates"][k] = true
		}
	}
	os.Remove(bfsFile)
	r.Set("distinct_nontrivial", len(res.Sets["poolstates"]))
	r.Set("rule", "op alphabet incl. parallel assignments whose right-hand operands are read through dereferences / pointer-reached fields and elements / converted, sliced and asserted operands; layer 1: every op sequence up to the length bound in two placements (locals of main; package-level variables with one Eval per op), no de-duplication; layer 2: BFS over the native reference model with alias-aware canonical states, one shortest history per new state replayed on the interpreter; distinct_nontrivial = distinct whole-pool lines observed")

	// ---- attribution to minimal failing sub-histories (the space is closed under deleting an op)
	failing := map[string]bool{}
	for _, f := range fails {
		failing[seqName(f.Job.Place, f.Job.Seq)] = true
	}
	for _, f := range fails {
		key := minimal(f.Job.Place, f.Job.Seq, failing)
		what := seqName(f.Job.Place, f.Job.Seq) + ": " + diff(f.Native, f.Interp)
		r.Fail(report.Failure{Key: key, What: what, Case: f})
	}
	for _, k := range []int{0, len(jobs) / 3, len(jobs) - 1} {
		r.Sample(map[string]interface{}{"history": seqName(jobs[k].Place, jobs[k].Seq)})
	}
	if len(bjobs) > 0 {
		r.Sample(map[string]interface{}{"bfs_history": seqName("local", bjobs[len(bjobs)-1].Seq)})
	}
	r.Finish()
}

// minimal returns the name of a minimal failing sub-history (delete one op at a time while it still fails).
func minimal(place string, seq []int, failing map[string]bool) string {
	for {
		reduced := false
		for k := range seq {
			sub := append(append([]int{}, seq[:k]...), seq[k+1:]...)
			if failing[seqName(place, sub)] {
				seq, reduced = sub, true
				break
			}
		}
		if !reduced {
			break
		}
	}
	// a finding is the op shape, whatever the placement, when both placements fail on it
	return strings.TrimPrefix(strings.TrimPrefix(seqName(place, seq), "local: "), "global: ") + placeTag(place, seq, failing)
}

func placeTag(place string, seq []int, failing map[string]bool) string {
	other := "global"
	if place == "global" {
		other = "local"
	}
	if failing[seqName(other, seq)] {
		return ""
	}
	return " (" + place + " only)"
}

func diff(n, i obs) string {
	if i.Err != "" {
		return "interpreter error: " + i.Err
	}
	nl, il := strings.Split(n.Out, "\n"), strings.Split(i.Out, "\n")
	for k := 0; k < len(nl) || k < len(il); k++ {
		a, b := "<none>", "<none>"
		if k < len(nl) {
			a = nl[k]
		}
		if k < len(il) {
			b = il[k]
		}
		if a != b {
			return fmt.Sprintf("state after step %d: native=%q interp=%q", k, a, b)
		}
	}
	return fmt.Sprintf("ending: native panic=%v interp panic=%v", n.Panic, i.Panic)
}

func replay(r *report.Run) {
	var cases []fail
	if err := report.ReadReplay(r.Replay, &cases); err != nil {
		fmt.Fprintln(os.Stderr, "HARNESS-ERROR:", err)
		os.Exit(3)
	}
	bad := 0
	for _, c := range cases {
		var it obs
		var src string
		if c.Job.Place == "global" {
			it = interpGlobal(c.Job.Seq)
			src = "(one Eval per op on package-level variables)\n" + strings.Join(c.Ops, "\n")
		} else {
			it = interpLocal(c.Job.Seq)
			src = script(c.Job.Seq)
		}
		n := native(c.Job.Seq)
		if same(n, it) {
			fmt.Println("replay: agrees now:", seqName(c.Job.Place, c.Job.Seq))
			continue
		}
		bad++
		fmt.Printf("replay: DIFFERS %s: %s\n--- program ---\n%s\n", seqName(c.Job.Place, c.Job.Seq), diff(n, it), src)
	}
	if bad > 0 {
		fmt.Printf("VIOLATION property=C04 replay=%s\n", r.Replay)
		os.Exit(1)
	}
	os.Exit(0)
}
