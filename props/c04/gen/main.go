// Generator for C04: writes the op alphabet once as Go source: every op is
// compiled natively as a closure over the pool and its identical text is kept
// for the interpreter.
package main

import (
	"fmt"
	"os"
	"path/filepath"
	"strconv"
	"strings"

	"verif/engine/twin/emit"
)

// core marks the ops used for the deeper quick layer.
var ops = []struct {
	text string
	core bool
}{
	{"br = ar", true}, {"ar[1] = 9", true}, {"br[0]++", false}, {"su = st", true}, {"st.A = su.A", false}, {"su.A[1] = 7", true}, {"st.N++", false},
	{"as[0] = st", true}, {"st = as[1]", false}, {"as[1].A[0] = 5", false}, {"as[1].N = i", false},
	{`ms["k"] = st`, true}, {`st = ms["k"]`, false}, {`delete(ms, "k")`, false}, {`su = ms["zz"]`, false}, {`ms["n"] = T{N: i}`, false},
	{"mutT(st)", true}, {"mutPT(&st)", false}, {"st = retT(su)", true}, {"su = retT(st)", false}, {"ar = retA(ar)", false}, {"mutA(ar)", false},
	{"for k, v := range ar {\nar[2-k] = v + 1\n}", true}, {"for k, v := range sl {\nsl[len(sl)-1-k] = v + 1\n}", true}, {"for k := range ar {\nbr[k] = ar[k] * 2\n}", false},
	{"for _, t := range as {\nt.N = 50\nj += t.N\n}", false}, {"for k := range as {\nas[k].N += 10\n}", false},
	{"fn = func() int {\nst.N++\nreturn st.N\n}", true}, {"i = fn()", true}, {"fn = func() int {\nt := st\nt.N += 5\nreturn t.N\n}", false},
	{"fn = func() int {\nc := ar\nc[0] = 77\nreturn c[0] + ar[0]\n}", false},
	{"sm = sl", true}, {"sm = sl[1:]", true}, {"sm = sl[:2:2]", true}, {"sm = sl[1:2:3]", false},
	// every slicing form (low / high / max present or omitted) on a slice, an array, a pointer to array and a struct field
	{"sm = sl[:1:3]", true}, {"sm = sl[:1]", false}, {"sm = sl[1:2]", false}, {"sm = sl[:]", false}, {"sm = sl[0:1:2]", false},
	{"sm = ar[:1:3]", true}, {"sm = ar[1:2:3]", false}, {"sm = ar[1:]", false}, {"sm = ar[:2]", false}, {"sm = ar[1:2]", false},
	{"{\npa := &ar\nsm = pa[:1:2]\n}", false}, {"{\npa := &ar\nsm = pa[1:]\n}", false}, {"{\npa := &ar\nsm = pa[1:2:3]\n}", false},
	{"sm = st.A[:1:2]", false}, {"sm = st.A[1:]", false}, {"sm = st.S[:1:2]", false}, {"sm = as[1].A[:1]", false},
	{"sm = append(sm, 41)", true}, {"sm = sm[:cap(sm)]", false}, {"i = cap(sm)*10 + len(sm)", false},
	{"{\nsx := \"hello\"\ni = len(sx[1:3]) + len(sx[:2]) + len(sx[3:])\n}", false}, {"sl = append(sl, i)", true}, {"sm = append(sm, 7)", true}, {"sl = append(sl[:1], sl[2:]...)", false},
	{"copy(sl, sm)", false}, {"copy(sl[1:], sl)", true}, {"sl = ar[:]", true}, {"sl = sl[:cap(sl)]", false}, {"sl = sl[:0]", false}, {"sl[0] = 8", true}, {"sm[0] += 2", false},
	{"ss[0] = sl", false}, {"ss = append(ss, sm)", false}, {"ss[0][0] = 4", false}, {"st.S = sl", false}, {"st.S = append(st.S, 3)", false}, {"su.S[0] = 6", false},
	{`st.M["a"]++`, false}, {"su.M = st.M", true}, {`delete(st.M, "a")`, true}, {`j, _ = st.M["a"]`, true}, {`st.M = map[string]int{"b": 2}`, false}, {`su.M["c"] = i`, false},
	{"if v, ok := st.M[\"a\"]; ok {\nj = v + 10\n} else {\nj = -1\n}", false},
	{"pi = &i", false}, {"pi = &ar[1]", true}, {"pi = &st.N", false}, {"pi = &sl[0]", false}, {"*pi += 5", true}, {"pt = &st", true}, {"pt.N = 3", false}, {"*pt = su", true}, {"su = *pt", false},
	{"pt = &as[1]", false}, {"st.P = pi", false}, {"*st.P = 1", false}, {"pt.A[0] = 2", false}, {"pt.S = nil", false},
	// second generation: composite literals reading their own destination, append onto a prefix of its own arguments,
	// named results reading the destination, method values (receiver copied when the value is made), copies through pointers,
	// range over an array of structs while an element is assigned
	{"ar = [3]int{ar[2], ar[1], ar[0]}", true}, {"st.A = [2]int{st.A[1], st.A[0]}", false}, {"br = [3]int{ar[0], ar[1], ar[2]}", false},
	{"st = T{N: st.A[0], A: [2]int{st.N, st.A[1]}, S: st.S, M: st.M, P: st.P}", true}, {"as = [2]T{as[1], as[0]}", false}, {"sl = []int{sl[2], sl[1], sl[0]}", false},
	{"st, su = T{N: su.N, A: su.A, S: su.S, M: su.M, P: su.P}, T{N: st.N, A: st.A, S: st.S, M: st.M, P: st.P}", false},
	{"sl = append(sl[:0], sl[1], sl[0])", true}, {"sl = append(sl[:1], sl...)", false},
	{"ar = func() (res [3]int) {\nres[0] = ar[2]\nres[2] = ar[0]\nreturn\n}()", false}, {"st = func() (res T) {\nres = su\nres.N = st.N + 1\nreturn\n}()", false},
	{"{\nmv := st.get\nst.N = 40\ni = mv()\n}", true}, {"{\nmset := pt.set\npt = &as[0]\nmset(i)\n}", false}, {"{\nme := T.get\ni = me(st)\n}", false},
	{"{\npa := &ar\nbr = *pa\npa[0] = 55\n}", false}, {"{\nc := ar\npa := &c\npa[1] = 66\nbr = c\n}", false},
	{"for k, t := range as {\nas[1].N = 70 + k\nj += t.N\n}", false}, {"for k, v := range &ar {\nar[2] = 30 + k\nj += v\n}", false},
	// third generation: range over an array / slice that is NOT a plain variable (struct field, element of an array of
	// structs, pointer dereference, slice-typed field) while the body writes a not yet visited element or reslices it:
	// the range expression is evaluated once, arrays are copied
	{"for k, v := range st.A {\nst.A[(k+1)%2] += 10\nj += v\n}", true}, {"for k, v := range as[1].A {\nas[1].A[(k+1)%2] += 10\nj += v\n}", false},
	{"for k, v := range pt.A {\npt.A[(k+1)%2] += 10\nj += v\n}", false}, {"{\npa := &ar\nfor k, v := range *pa {\npa[(k+1)%3] += 10\nj += v\n}\n}", false},
	{"for _, v := range st.S {\nst.S = st.S[:1]\nj += v\n}", false}, {"{\nn := 0\nfor _, v := range st.S {\nn++\nif n > 6 {\nbreak\n}\nst.S = append(st.S, v)\nj += v\n}\n}", false},
	{"for k := range st.A {\nst.A[(k+1)%2] += 10\nj += st.A[k]\n}", false}, {"for k, v := range ss[1] {\nss[1] = ss[1][:1]\nj += v + k\n}", false},
	{"for k, v := range ms[\"k\"].A {\nj += v + k\n}", false}, {"for _, t := range []T{st, su} {\nt.N++\nj += t.N\n}", false},
	// fourth generation: parallel assignment whose right-hand operands are read THROUGH something an earlier destination of
	// the same statement writes (dereferences, pointer-reached fields / elements, parenthesised, converted and sliced
	// operands, whole structs / arrays swapped through pointers): all operands are evaluated before any store
	{"*pi, i = i, *pi", true}, {"{\npa, pb := &ar[0], &ar[2]\n*pa, *pb = *pb, *pa\n}", false}, {"{\npa, pb := &st, &su\n*pa, *pb = *pb, *pa\n}", false},
	{"{\npa, pb := &ar, &br\n*pa, *pb = *pb, *pa\n}", false}, {"{\npa := &sl[0]\nsl[0], sl[1] = sl[1], *pa\n}", false}, {"*pt, st = st, *pt", false},
	{"{\npa := &as[0]\nas[0], as[1] = as[1], *pa\n}", false}, {"{\npa := &i\ni, j = j, *pa\n}", false}, {"st.N, *st.P = *st.P, st.N", false},
	{"pt.N, pt.A[0] = pt.A[0], pt.N", false}, {"st.A, su.A = su.A, st.A", false}, {"as[0], as[1] = as[1], as[0]", false}, {"i, j = j, (i)", false},
	{"i, j = j, int(i)", false}, {"i, j = j, -i", false}, {"sl, sm = sm[:1], sl[:2]", false}, {"{\nvar e interface{} = i\ni, j = j, e.(int)\n}", false},
	{"st, su = su, T{N: st.N, A: st.A}", false}, {"ar, br = br, [3]int(ar)", false}, {"{\npa := &ar\nar[0], ar[1] = ar[1], pa[0]\n}", false},
	{"i, j = j, i", false}, {"sl[0], sl[1] = sl[1], sl[0]", false}, {"ar[i%3], i = i, ar[i%3]", true}, {"st.N, su.N = su.N, st.N", false}, {"i, sl[i%2] = 1, 9", false}, {"ar, br = br, ar", false}, {"st, su = su, st", false},
}

const declTypes = `type T struct {
	N int
	A [2]int
	S []int
	M map[string]int
	P *int
}

func mutT(t T) {
	t.N = 100
	t.A[0] = 100
	t.S[0] = 100
}

func mutPT(t *T) {
	t.N = 200
	t.A[0] = 200
}

func retT(t T) T {
	t.N += 1
	t.A[1] += 1
	return t
}

func (t T) get() int { return t.N*10 + t.A[0] }

func (t *T) set(v int) { t.N = v; t.A[1] = v }

func retA(a [3]int) [3]int {
	a[0] += 10
	return a
}

func mutA(a [3]int) {
	a[1] = 100
}
`
const poolVars = "var ar, br [3]int\nvar st, su T\nvar sl, sm []int\nvar ss [][]int\nvar as [2]T\nvar ms map[string]T\nvar pt *T\nvar pi *int\nvar i, j int\nvar fn func() int\n"
const initBody = `ar = [3]int{1, 2, 3}
br = [3]int{4, 5, 6}
i, j = 1, 2
st = T{N: 1, A: [2]int{1, 2}, S: []int{1, 2}, M: map[string]int{"a": 1}, P: &j}
su = T{N: 2, A: [2]int{3, 4}, S: []int{3, 4}, M: map[string]int{"b": 2}, P: &j}
sl = make([]int, 3, 5)
sl[0], sl[1], sl[2] = 1, 2, 3
sm = []int{7, 8, 9}
ss = [][]int{{1}, {2, 3}}
as = [2]T{{N: 5, S: []int{5}, M: map[string]int{}, P: &i}, {N: 6, S: []int{6}, M: map[string]int{}, P: &i}}
ms = map[string]T{"k": {N: 9, S: []int{9}, M: map[string]int{}, P: &i}}
pt = &su
pi = &j
fn = func() int { return 0 }
`
const showStmt = `Show(ar, br, st.N, st.A, st.S, st.M, *st.P, su.N, su.A, su.S, su.M, *su.P, sl, len(sl), cap(sl), sm, len(sm), cap(sm), ss, as[0].N, as[0].A, as[1].N, as[1].A, as[1].S, len(ms), ms["k"].N, ms["k"].A, *pi, pt.N, pt.A, pt.S, i, j, fn != nil)`

func main() {
	dir := filepath.Join(emit.Root(), "gen", "c04ops")
	os.MkdirAll(dir, 0o755)
	var b strings.Builder
	b.WriteString("// Code generated by props/c04/gen. DO NOT EDIT.\n\npackage c04ops\n\nimport . \"verif/engine/twin/h\"\n\n" + declTypes + "\n" + poolVars + "\n// Reset re-initialises the pool.\nfunc Reset() {\n" + initBody + "}\n\n// ShowAll prints the whole pool.\nfunc ShowAll() {\n" + showStmt + "\n}\n\n")
	b.WriteString("// Op is one operation of the alphabet: identical text for both executions.\ntype Op struct {\n\tText string\n\tCore bool\n\tF    func()\n}\n\n// Ops is the alphabet.\nvar Ops = []Op{\n")
	for _, o := range ops {
		fmt.Fprintf(&b, "\t{Text: %s, Core: %v, F: func() {\n%s\n}},\n", strconv.Quote(o.text), o.core, o.text)
	}
	b.WriteString("}\n\n")
	fmt.Fprintf(&b, "// Source fragments for the interpreter.\nconst (\n\tDeclTypes = %s\n\tPoolVars = %s\n\tInitBody = %s\n\tShowStmt = %s\n)\n", strconv.Quote(declTypes), strconv.Quote(poolVars), strconv.Quote(initBody), strconv.Quote(showStmt))
	// alias-aware canonical state: addresses of every pool variable for the runner
	b.WriteString(`
// Roots returns the addresses of the pool variables (for the alias-aware canonical state).
func Roots() map[string]interface{} {
	return map[string]interface{}{"ar": &ar, "br": &br, "st": &st, "su": &su, "sl": &sl, "sm": &sm, "ss": &ss, "as": &as, "ms": &ms, "pt": &pt, "pi": &pi, "i": &i, "j": &j, "fn": &fn}
}
`)
	name := filepath.Join(dir, "ops.go")
	if prev, err := os.ReadFile(name); err == nil && string(prev) == b.String() {
		fmt.Println("c04 gen: unchanged,", len(ops), "ops")
		return
	}
	if err := os.WriteFile(name, []byte(b.String()), 0o644); err != nil {
		fmt.Fprintln(os.Stderr, "HARNESS-ERROR:", err)
		os.Exit(3)
	}
	fmt.Println("c04 gen:", len(ops), "ops")
}
