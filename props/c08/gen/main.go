// Generator for C08: the native twins of the concurrent templates (expected outputs come from gc).
package main

import (
	"fmt"
	"os"

	"verif/engine/twin/emit"
	"verif/props/c08/tmpl"
)

func main() {
	var srcs []emit.Src
	for _, t := range tmpl.All() {
		srcs = append(srcs, emit.Src{Name: t.Name, Text: t.Src})
	}
	res, err := emit.Package(emit.Root()+"/gen/c08cases", "c08cases", srcs, 4)
	if err != nil || len(res.Rejected) > 0 {
		fmt.Fprintln(os.Stderr, "HARNESS-ERROR:", err, res.Rejected)
		os.Exit(3)
	}
	fmt.Println("c08 gen:", res.Emitted, "templates")
}
