// Package tmpl holds the schedule-independent concurrent program templates of C08 (shared by the
// generator of the native twins, the exploration harness and the race pass).
package tmpl

import (
	"fmt"
	"strings"
)

// T is one template instance.
type T struct {
	Name string
	Src  string
}

const head = "package main\n\nimport (\n\t\"sync\"\n\n\t. \"verif/engine/twin/h\"\n)\n\nvar _ sync.Mutex\n\n"

// All returns every template instance: goroutine counts 2..3, 1..2 items.
func All() []T {
	var ts []T
	add := func(name, body string) { ts = append(ts, T{Name: name, Src: head + body}) }
	for _, n := range []int{1, 2} {
		add(fmt.Sprintf("T1 pipeline items=%d", n), fmt.Sprintf(`func main() {
	c1 := make(chan int)
	c2 := make(chan int)
	done := make(chan int)
	go func() {
		for i := 1; i <= %d; i++ {
			c1 <- i
		}
		close(c1)
	}()
	go func() {
		for v := range c1 {
			c2 <- v * 10
		}
		close(c2)
	}()
	go func() {
		s := 0
		for v := range c2 {
			s += v
		}
		done <- s
	}()
	Show(<-done)
}
`, n))
	}
	for _, w := range []int{2, 3} {
		for _, j := range []int{2, 3} {
			if w == 3 && j == 3 {
				continue
			}
			add(fmt.Sprintf("T2 fanout workers=%d jobs=%d", w, j), fmt.Sprintf(`func main() {
	jobs := make(chan int)
	results := make(chan int, %d)
	var wg sync.WaitGroup
	for w := 0; w < %d; w++ {
		wg.Add(1)
		go func(id int) {
			defer wg.Done()
			for j := range jobs {
				results <- j * j
			}
		}(w)
	}
	for j := 1; j <= %d; j++ {
		jobs <- j
	}
	close(jobs)
	wg.Wait()
	close(results)
	s := 0
	for r := range results {
		s += r
	}
	Show(s)
}
`, j, w, j))
		}
	}
	for _, w := range []int{2, 3} {
		add(fmt.Sprintf("T3 private-select workers=%d", w), strings.ReplaceAll(`func main() {
	const N = NN
	var wg sync.WaitGroup
	res := make([]int, N)
	in := make([]chan int, N)
	quit := make([]chan bool, N)
	for w := 0; w < N; w++ {
		in[w] = make(chan int)
		quit[w] = make(chan bool)
		wg.Add(1)
		go func(w int) {
			defer wg.Done()
			for {
				select {
				case v := <-in[w]:
					res[w] += v
				case <-quit[w]:
					return
				}
			}
		}(w)
	}
	for w := 0; w < N; w++ {
		in[w] <- w + 1
	}
	for w := 0; w < N; w++ {
		quit[w] <- true
	}
	wg.Wait()
	Show(res)
}
`, "NN", fmt.Sprint(w)))
	}
	for _, w := range []int{2, 3} {
		add(fmt.Sprintf("T4 mutex-counter goroutines=%d", w), fmt.Sprintf(`func main() {
	var mu sync.Mutex
	var wg sync.WaitGroup
	n := 0
	for g := 0; g < %d; g++ {
		wg.Add(1)
		go func() {
			defer wg.Done()
			for k := 0; k < 2; k++ {
				mu.Lock()
				t := n
				t++
				n = t
				mu.Unlock()
			}
		}()
	}
	wg.Wait()
	Show(n)
}
`, w))
	}
	for _, b := range []int{0, 1} {
		add(fmt.Sprintf("T5 producer-consumer buffer=%d", b), fmt.Sprintf(`func main() {
	ch := make(chan int, %d)
	done := make(chan bool)
	go func() {
		for i := 0; i < 3; i++ {
			ch <- i + 1
		}
		close(ch)
	}()
	s := 0
	go func() {
		for v := range ch {
			s = s*10 + v
		}
		done <- true
	}()
	<-done
	Show(s)
}
`, b))
	}
	for _, w := range []int{2, 3} {
		add(fmt.Sprintf("T9 shared-func-value-call-site workers=%d", w), fmt.Sprintf(`type calc struct{ k int }

func (c calc) mul(x, y int) int { return x*y + c.k }

func apply(f func(int, int) int, x, y int) int { return f(x, y) }

var sq = func(x, k int) int { return x*x + k }

// a named worker: go statements on named functions are not affected by the function-literal slot defect
func worker(id int, res []int, wg *sync.WaitGroup) {
	defer wg.Done()
	c := calc{id}
	m := c.mul
	for j := 1; j <= 2; j++ {
		res[id] += sq(j, id) + apply(sq, j, id) + m(j, id+1)
	}
}

func main() {
	var wg sync.WaitGroup
	res := make([]int, %d)
	for w := 0; w < %d; w++ {
		wg.Add(1)
		go worker(w, res, &wg)
	}
	wg.Wait()
	Show(res)
}
`, w, w))
	}
	// T10: every form of go statement (literal, function variable, declared function, method value) with arguments of every
	// reference kind passed from variables that the parent reassigns right after the go statement: the arguments of a go
	// statement are evaluated (copied) when the statement executes
	for _, c := range []struct {
		form string
		n    int
	}{{"lit", 2}, {"lit", 3}, {"fvar", 2}, {"named", 2}, {"method", 2}} {
		call := map[string]string{
			"lit":    "go func(out chan int, j *job, s []int, mm map[string]int, k int) {\n\t\t\tout <- j.n*1000 + s[0]*100 + mm[\"v\"]*10 + k\n\t\t}(ch, jb, sl, m, i)",
			"fvar":   "go f(ch, jb, sl, m, i)",
			"named":  "go named(ch, jb, sl, m, i)",
			"method": "go wk.run(ch, jb, sl, m, i)",
		}[c.form]
		add(fmt.Sprintf("T10 go-args form=%s workers=%d", c.form, c.n), fmt.Sprintf(`type job struct{ n int }

type worker struct{ base int }

func (w worker) run(out chan int, j *job, s []int, mm map[string]int, k int) {
	out <- w.base + j.n*1000 + s[0]*100 + mm["v"]*10 + k
}

func named(out chan int, j *job, s []int, mm map[string]int, k int) {
	out <- j.n*1000 + s[0]*100 + mm["v"]*10 + k
}

func main() {
	chans := make([]chan int, %d)
	for i := range chans {
		chans[i] = make(chan int, 1)
	}
	var ch chan int
	var jb *job
	var sl []int
	var m map[string]int
	f := func(out chan int, j *job, s []int, mm map[string]int, k int) {
		out <- j.n*1000 + s[0]*100 + mm["v"]*10 + k
	}
	wk := worker{0}
	_, _ = f, wk
	for i := 0; i < len(chans); i++ {
		ch = chans[i]
		jb = &job{i + 1}
		sl = []int{i + 2}
		m = map[string]int{"v": i + 3}
		%s
	}
	spare := make(chan int, 4)
	wk = worker{5000}
	ch = spare
	jb = &job{9}
	sl = []int{9}
	m = map[string]int{"v": 9}
	for i := 0; i < len(chans); i++ {
		Show(<-chans[i])
	}
	Show(len(spare), jb.n, sl[0], m["v"], ch == spare, wk.base)
}
`, c.n, call))
	}
	// T11: channel statement forms whose operands are expressions (send operand of a select case, receive assigned to a
	// captured variable, range over a slice of channels), with one helper goroutine
	add("T11a select-send-operand", `func main() {
	out := make(chan int, 2)
	id, k := 3, 4
	select {
	case out <- id*1000 + k:
	}
	select {
	case out <- (id + 1) * (k + 1):
	default:
	}
	Show(<-out, <-out)
}
`)
	add("T11b range-over-slice-of-channels", `func main() {
	chans := []chan int{make(chan int, 1), make(chan int, 1)}
	done := make(chan bool)
	go func() {
		for i, c := range chans {
			c <- (i + 1) * 10
		}
		done <- true
	}()
	<-done
	Show(<-chans[0], <-chans[1])
}
`)
	add("T11c receive-into-captured-variable", `func main() {
	ch := make(chan int, 2)
	done := make(chan bool)
	go func() {
		ch <- 10
		ch <- 20
		done <- true
	}()
	<-done
	result := 0
	func() {
		result = <-ch
	}()
	second := 0
	func() {
		v, ok := <-ch
		if ok {
			second = v
		}
	}()
	Show(result, second)
}
`)
	add("T8 select-default-poll", `func main() {
	ch := make(chan int)
	ack := make(chan bool)
	go func() {
		ch <- 7
		<-ack
	}()
	got := 0
	for got == 0 {
		select {
		case v := <-ch:
			got = v
		default:
			got = <-ch
		}
	}
	ack <- true
	Show(got)
}
`)
	return ts
}

// HostFuncs is the script used by the host-caller scenarios (T6).
const HostFuncs = `package main

import "sync"

func Sum(a, b int) int {
	s := 0
	for i := a; i < b; i++ {
		t := s
		s = t + i
	}
	return s
}

var mu sync.Mutex

var n int

func Inc() int {
	mu.Lock()
	defer mu.Unlock()
	t := n
	t++
	n = t
	return n
}

var sq = func(x, k int) int { return x*x + k }

func Apply(x int) int {
	t := 0
	for i := 0; i < 3; i++ {
		t += sq(x, i)
	}
	return t
}

func Pair(x int) (int, []int) {
	l := []int{x}
	for i := 0; i < 2; i++ {
		l = append(l, x*10+i)
	}
	return x * 2, l
}
`
