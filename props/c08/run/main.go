// C08: concurrent execution under every schedule. The real interpreter (package interp rewritten by the
// build overlay so that goroutine creation, channel operations, the cancellation channel and its locks go
// through the controlled scheduler) runs schedule-independent programs; the scheduler explores every
// interleaving with a bounded number of preemptions (iterative context bounding), including every select-case
// and rendezvous-partner choice; every execution must produce the compiled program's output and must not
// deadlock. Host-caller scenarios check that concurrent activations see only their own arguments and locals.
package main

import (
	"bytes"
	"context"
	"encoding/json"
	"fmt"
	"os"
	"os/exec"
	"path/filepath"
	"reflect"
	"regexp"
	"sort"
	"strings"
	"time"

	"github.com/traefik/yaegi/interp"
	"github.com/traefik/yaegi/vsched"
	"verif/engine/par"
	"verif/engine/report"
	"verif/engine/twin"
	"verif/engine/twin/h"
	_ "verif/gen/c08cases"
	"verif/props/c08/tmpl"
)

type scenario struct {
	Name string `json:"name"`
	Kind string `json:"kind"` // tmpl | host-pure | host-inc | host-pair | two-interps
	Src  string `json:"src,omitempty"`
	Mode string `json:"mode,omitempty"` // eval | ctx
	N    int    `json:"n,omitempty"`
	Want string `json:"want"`
}

type result struct {
	Out      string
	Err      string
	Deadlock bool
	Diverged string
	CapHit   bool
	Points   []vsched.Point
	Choices  []int
	Threads  int
	ChanOps  int
	Switches int
	Panics   []string
	DlInfo   string
}

func syncExports() interp.Exports {
	return interp.Exports{"sync/sync": {"WaitGroup": reflect.ValueOf((*vsched.WaitGroup)(nil)), "Mutex": reflect.ValueOf((*vsched.Mutex)(nil))}}
}

// miniStd is a small process-wide symbol table with the fmt and os entries that restricted mode replaces per interpreter
// (the whole stdlib table would triple the build time of the exploration binary).
var miniStd = interp.Exports{
	"fmt/fmt": {"Println": reflect.ValueOf(fmt.Println), "Printf": reflect.ValueOf(fmt.Printf), "Sprint": reflect.ValueOf(fmt.Sprint)},
	"os/os":   {"Args": reflect.ValueOf(&os.Args).Elem(), "Getenv": reflect.ValueOf(os.Getenv), "Exit": reflect.ValueOf(os.Exit)},
}

func newInterp(buf *bytes.Buffer) *interp.Interpreter {
	steps := 0
	i := interp.New(interp.Options{Stdout: buf, Stderr: &bytes.Buffer{}})
	i.Use(h.Exports(buf, &steps))
	i.Use(syncExports())
	return i
}

func run(sc scenario, prefix []int) (r result) {
	var buf bytes.Buffer
	s := vsched.New(prefix)
	var err error
	var extra []string
	main := func() {
		switch sc.Kind {
		case "tmpl":
			i := newInterp(&buf)
			if sc.Mode == "ctx" {
				_, err = i.EvalWithContext(context.Background(), sc.Src)
			} else {
				_, err = i.Eval(sc.Src)
			}
		case "host-pure", "host-inc", "host-pair", "host-apply":
			i := newInterp(&buf)
			if _, err = i.Eval(tmpl.HostFuncs); err != nil {
				return
			}
			res := make([]string, sc.N)
			var wg vsched.WaitGroup
			var fv reflect.Value
			name := map[string]string{"host-pure": "Sum", "host-inc": "Inc", "host-pair": "Pair", "host-apply": "Apply"}[sc.Kind]
			if fv, err = i.Eval(name); err != nil {
				return
			}
			for k := 0; k < sc.N; k++ {
				k := k
				wg.Add(1)
				vsched.GoNamed(fmt.Sprint("host", k), func() {
					defer wg.Done()
					switch sc.Kind {
					case "host-pure":
						out := fv.Call([]reflect.Value{reflect.ValueOf(k), reflect.ValueOf(k + 4)})
						res[k] = fmt.Sprint(out[0].Interface())
					case "host-inc":
						a := fv.Call(nil)[0].Interface()
						res[k] = fmt.Sprint(a)
					case "host-pair":
						out := fv.Call([]reflect.Value{reflect.ValueOf(k + 1)})
						res[k] = fmt.Sprint(out[0].Interface(), out[1].Interface())
					case "host-apply":
						out := fv.Call([]reflect.Value{reflect.ValueOf(k + 1)})
						res[k] = fmt.Sprint(out[0].Interface())
					}
				})
			}
			wg.Wait()
			if sc.Kind == "host-inc" {
				sort.Strings(res) // linearizable counter: the results are a permutation of 1..N
			}
			extra = res
		case "two-interps":
			var b2 bytes.Buffer
			i1, i2 := newInterp(&buf), newInterp(&b2)
			var wg vsched.WaitGroup
			var e2 error
			wg.Add(1)
			vsched.GoNamed("interp2", func() {
				defer wg.Done()
				_, e2 = i2.Eval(strings.ReplaceAll(sc.Src, "BASE", "100"))
			})
			_, err = i1.Eval(strings.ReplaceAll(sc.Src, "BASE", "1"))
			wg.Wait()
			if err == nil {
				err = e2
			}
			extra = []string{strings.TrimSpace(b2.String())}
		case "two-interps-stdlib":
			// both interpreters exist (own streams, arguments, environment; the default symbols) before either runs
			var b2 bytes.Buffer
			mk := func(out *bytes.Buffer, arg, who string) *interp.Interpreter {
				i := interp.New(interp.Options{Stdout: out, Stderr: &bytes.Buffer{}, Args: []string{"prog", arg}, Env: []string{"WHO=" + who}})
				i.Use(miniStd) // one process-wide table handed to every interpreter, as stdlib.Symbols is
				return i
			}
			i1, i2 := mk(&buf, "one", "first"), mk(&b2, "two", "second")
			var wg vsched.WaitGroup
			var e2 error
			wg.Add(1)
			vsched.GoNamed("interp2", func() {
				defer wg.Done()
				_, e2 = i2.Eval(sc.Src)
			})
			_, err = i1.Eval(sc.Src)
			wg.Wait()
			if err == nil {
				err = e2
			}
			extra = []string{strings.TrimSpace(b2.String())}
		}
	}
	s.Run(main)
	r.Out = buf.String()
	if len(extra) > 0 {
		r.Out += strings.Join(extra, "|") + "\n"
	}
	if err != nil {
		r.Err = strings.SplitN(err.Error(), "\n", 2)[0]
	}
	r.Deadlock, r.Diverged, r.CapHit = s.Deadlock, s.Diverged, s.CapHit
	r.Points, r.Choices = s.Points, s.Choices
	r.Threads = len(s.Threads())
	for _, t := range s.Threads() {
		r.ChanOps += t.Chans
	}
	r.Switches = s.Switches
	r.Panics = s.ThreadPanics
	r.DlInfo = s.DeadlockInfo
	return
}

func (r result) outcome() string {
	switch {
	case r.Diverged != "":
		return "HARNESS " + r.Diverged
	case r.CapHit:
		return "STEP-CAP"
	case len(r.Panics) > 0:
		return "GOROUTINE-PANIC " + r.Panics[0] + " (in Go a panic in a goroutine terminates the program)"
	case r.Deadlock:
		return "DEADLOCK after " + fmt.Sprintf("%q", r.Out) + " :: " + r.DlInfo
	case r.Err != "":
		return "ERROR " + r.Err
	}
	return r.Out
}

func preemptionsBefore(x result, i int) int {
	c := 0
	for k := 0; k < i; k++ {
		p := x.Points[k]
		if p.Cur >= 0 && p.RunningStillEnabled && p.AltThreads[x.Choices[k]] != p.Cur {
			c++
		}
	}
	return c
}

type stats struct {
	Execs, Points, NonTrivial int
	MaxDepth                  int
	Outcomes                  map[string]int
	Bad                       [][]int
	BadOutcome                []string
}

// explore runs the DFS below prefix with at most bound preemptions.
func explore(sc scenario, prefix []int, bound int, st *stats, budget *int) {
	if *budget <= 0 {
		return
	}
	*budget--
	x := run(sc, prefix)
	st.Execs++
	st.Points += len(x.Points)
	if len(x.Points) > st.MaxDepth {
		st.MaxDepth = len(x.Points)
	}
	if x.Threads >= 2 && x.Switches > 0 && x.ChanOps >= 2 {
		st.NonTrivial++
	}
	o := x.outcome()
	st.Outcomes[o]++
	if o != sc.Want && len(st.Bad) < 3 {
		st.Bad = append(st.Bad, append([]int{}, x.Choices...))
		st.BadOutcome = append(st.BadOutcome, o)
	}
	for i := len(prefix); i < len(x.Points); i++ {
		p := x.Points[i]
		base := preemptionsBefore(x, i)
		for alt := 1; alt < p.NEnabled; alt++ {
			cost := base
			if p.Cur >= 0 && p.RunningStillEnabled && p.AltThreads[alt] != p.Cur {
				cost++
			}
			if cost > bound {
				continue
			}
			explore(sc, append(append([]int{}, x.Choices[:i]...), alt), bound, st, budget)
		}
	}
}

// roots lists the alternatives branching off the default execution (level-1 subtrees) within the bound.
func roots(sc scenario, bound int) (root result, rs [][]int) {
	x := run(sc, nil)
	for i := 0; i < len(x.Points); i++ {
		p := x.Points[i]
		base := preemptionsBefore(x, i)
		for alt := 1; alt < p.NEnabled; alt++ {
			cost := base
			if p.Cur >= 0 && p.RunningStillEnabled && p.AltThreads[alt] != p.Cur {
				cost++
			}
			if cost <= bound {
				rs = append(rs, append(append([]int{}, x.Choices[:i]...), alt))
			}
		}
	}
	return x, rs
}

type job struct {
	Sc     int   `json:"sc"`
	Prefix []int `json:"prefix"`
}

type jobOut struct {
	Sc     int   `json:"sc"`
	St     stats `json:"st"`
	Capped bool  `json:"capped"`
}

func scenarios() []scenario {
	var scs []scenario
	want := map[string]string{}
	for _, c := range twin.Cases {
		want[c.Name] = twin.RunNative(c).Out
	}
	for _, t := range tmpl.All() {
		for _, m := range []string{"eval", "ctx"} {
			scs = append(scs, scenario{Name: t.Name + " mode=" + m, Kind: "tmpl", Src: t.Src, Mode: m, Want: want[t.Name]})
		}
	}
	for _, n := range []int{2, 3} {
		var ws []string
		for k := 0; k < n; k++ {
			ws = append(ws, fmt.Sprint(4*k+6)) // sum of k..k+3
		}
		scs = append(scs, scenario{Name: fmt.Sprintf("T6a host threads=%d call exported pure function", n), Kind: "host-pure", N: n, Want: strings.Join(ws, "|") + "\n"})
		var is, ps []string
		for k := 1; k <= n; k++ {
			is = append(is, fmt.Sprint(k))
			ps = append(ps, fmt.Sprintf("%d [%d %d %d]", 2*k, k, k*10, k*10+1))
		}
		scs = append(scs, scenario{Name: fmt.Sprintf("T6b host threads=%d call exported mutex-protected Inc", n), Kind: "host-inc", N: n, Want: strings.Join(is, "|") + "\n"})
		scs = append(scs, scenario{Name: fmt.Sprintf("T6c host threads=%d call exported function building a slice", n), Kind: "host-pair", N: n, Want: strings.Join(ps, "|") + "\n"})
		var as []string
		for k := 1; k <= n; k++ {
			as = append(as, fmt.Sprint(3*k*k+3))
		}
		scs = append(scs, scenario{Name: fmt.Sprintf("T6d host threads=%d call exported function that calls a closure variable", n), Kind: "host-apply", N: n, Want: strings.Join(as, "|") + "\n"})
	}
	scs = append(scs, scenario{Name: "T7 two independent interpreters", Kind: "two-interps", Src: "package main\n\nimport . \"verif/engine/twin/h\"\n\nfunc main() {\n\ts := BASE\n\tc := make(chan int, 1)\n\tfor i := 0; i < 3; i++ {\n\t\tc <- s + i\n\t\ts = <-c\n\t}\n\tShow(s)\n}\n", Want: "4\n103\n"})
	scs = append(scs, scenario{Name: "T7b two interpreters with the default symbols, own streams, arguments and environment", Kind: "two-interps-stdlib", Src: "package main\n\nimport (\n\t\"fmt\"\n\t\"os\"\n)\n\nfunc main() {\n\tc := make(chan int, 1)\n\ts := 0\n\tfor i := 0; i < 2; i++ {\n\t\tc <- s + i\n\t\ts = <-c\n\t}\n\tfmt.Println(os.Args[1], os.Getenv(\"WHO\"), s)\n\tfmt.Printf(\"%s-%d\\n\", os.Args[1], len(os.Args))\n}\n", Want: "one first 1\none-2\ntwo second 1\ntwo-2\n"})
	return scs
}

func main() {
	r := report.Start("C08", "model_checking")
	interp.VerifSetStep(func(*interp.Interpreter, uint64, uint64) { vsched.Step() })
	scs := scenarios()
	if r.Replay != "" {
		var cs []struct {
			Scenario string `json:"scenario"`
			Schedule []int  `json:"schedule"`
		}
		if err := report.ReadReplay(r.Replay, &cs); err != nil {
			fmt.Fprintln(os.Stderr, "HARNESS-ERROR:", err)
			os.Exit(3)
		}
		bad := 0
		for _, c := range cs {
			for _, sc := range scs {
				if sc.Name != c.Scenario {
					continue
				}
				if os.Getenv("VSCHED_TRACE") != "" {
					vsched.Trace = func(l string) { fmt.Println("   trace:", l) }
				}
				var outs []string
				for k := 0; k < 3; k++ {
					outs = append(outs, run(sc, c.Schedule).outcome())
				}
				if outs[0] != outs[1] || outs[1] != outs[2] {
					fmt.Println("HARNESS-ERROR: replay of the recorded schedule is not deterministic:", outs)
					os.Exit(3)
				}
				if outs[0] != sc.Want {
					bad++
					fmt.Printf("replay %s schedule=%v: outcome %q, compiled program prints %q\n", sc.Name, c.Schedule, outs[0], sc.Want)
				} else {
					fmt.Println("replay: holds now:", sc.Name)
				}
			}
		}
		if bad > 0 {
			fmt.Printf("VIOLATION property=C08 replay=%s\n", r.Replay)
			os.Exit(1)
		}
		os.Exit(0)
	}
	// quick: every interleaving with <= 1 preemption; thorough: <= 2 (subtrees capped, caps reported)
	bound := 1
	perRoot := 20000
	if r.Thorough() {
		bound, perRoot = 2, 20000
	}
	// work list: level-1 subtrees of every scenario (computed once by the parent, read by the workers)
	jobsFile := filepath.Join(report.Root, ".work", "c08_jobs.json")
	var jobs []job
	rootStats := map[int]*stats{}
	if !par.IsWorker() {
		for si, sc := range scs {
			x, rs := roots(sc, bound)
			st := &stats{Outcomes: map[string]int{}}
			st.Execs, st.Points, st.MaxDepth = 1, len(x.Points), len(x.Points)
			o := x.outcome()
			st.Outcomes[o]++
			if o != sc.Want {
				st.Bad = append(st.Bad, x.Choices)
				st.BadOutcome = append(st.BadOutcome, o)
			}
			rootStats[si] = st
			for _, p := range rs {
				jobs = append(jobs, job{si, p})
			}
		}
		os.MkdirAll(filepath.Dir(jobsFile), 0o755)
		b, _ := json.Marshal(jobs)
		os.WriteFile(jobsFile, b, 0o644)
	} else {
		b, err := os.ReadFile(jobsFile)
		if err != nil || json.Unmarshal(b, &jobs) != nil {
			fmt.Fprintln(os.Stderr, "HARNESS-ERROR: worker cannot read", jobsFile)
			os.Exit(3)
		}
	}
	res := par.Map(len(jobs), func(i int) *jobOut {
		j := jobs[i]
		st := stats{Outcomes: map[string]int{}}
		budget := perRoot
		explore(scs[j.Sc], j.Prefix, bound, &st, &budget)
		return &jobOut{Sc: j.Sc, St: st, Capped: budget <= 0}
	}, par.Opts{CaseTimeout: 900 * 1e9, GoMaxProcs: 1, MemMB: 8192})
	os.Remove(jobsFile)
	capped := 0
	for _, o := range res.Outs {
		st := rootStats[o.Sc]
		st.Execs += o.St.Execs
		st.Points += o.St.Points
		st.NonTrivial += o.St.NonTrivial
		if o.St.MaxDepth > st.MaxDepth {
			st.MaxDepth = o.St.MaxDepth
		}
		for k, v := range o.St.Outcomes {
			st.Outcomes[k] += v
		}
		st.Bad = append(st.Bad, o.St.Bad...)
		st.BadOutcome = append(st.BadOutcome, o.St.BadOutcome...)
		if o.Capped {
			capped++
		}
	}
	for _, a := range res.Abnormal {
		j := jobs[a.Idx]
		r.Fail(report.Failure{Key: scs[j.Sc].Name + " | explorer worker " + a.Kind, What: fmt.Sprintf("%s: exploration below %v: worker %s (an execution did not terminate under the controlled scheduler)", scs[j.Sc].Name, j.Prefix, a.Kind), Case: map[string]interface{}{"scenario": scs[j.Sc].Name, "schedule": j.Prefix}})
	}
	var execs, points, nontriv, maxDepth int
	perScenario := map[string]interface{}{}
	for si, sc := range scs {
		st := rootStats[si]
		if st == nil {
			continue
		}
		execs += st.Execs
		points += st.Points
		nontriv += st.NonTrivial
		if st.MaxDepth > maxDepth {
			maxDepth = st.MaxDepth
		}
		perScenario[sc.Name] = map[string]interface{}{"executions": st.Execs, "scheduling_points": st.Points, "distinct_outcomes": len(st.Outcomes)}
		for k, o := range st.BadOutcome {
			if strings.HasPrefix(o, "HARNESS") {
				r.HarnessError("%s: %s (schedule %v)", sc.Name, o, st.Bad[k])
				continue
			}
			kind := "WRONG-OUTPUT"
			for _, k := range []string{"DEADLOCK", "GOROUTINE-PANIC", "ERROR", "STEP-CAP"} {
				if strings.HasPrefix(o, k) {
					kind = k
				}
			}
			r.Fail(report.Failure{Key: sc.Name + " | " + kind, What: fmt.Sprintf("%s: schedule %v gives %q, the compiled program prints %q", sc.Name, st.Bad[k], o, sc.Want), Case: map[string]interface{}{"scenario": sc.Name, "schedule": st.Bad[k], "outcome": o}})
		}
	}
	racePass(r)
	r.Set("evaluations", execs)
	r.Set("states", execs)
	r.Set("transitions", points)
	r.Set("traces_validated_against_impl", execs)
	r.Set("distinct_nontrivial", nontriv)
	r.Set("max_depth", maxDepth)
	r.Set("preemption_bound_completed", bound)
	r.Set("subtrees", len(jobs))
	r.Set("subtrees_capped", capped)
	r.Set("exhaustive", capped == 0 && len(res.Abnormal) == 0)
	r.Set("scenarios", perScenario)
	r.Set("rule", "every interleaving with <= bound preemptions at the scheduling points (before each interpreted operation, at each channel operation incl. the call boundary of select, at contended locks, at script-level Mutex/WaitGroup operations, thread start), all select-case and rendezvous-partner choices; the script templates (T1-T5, T8-T10 incl. every form of go statement with reference-kind arguments reassigned by the parent) x {Eval, EvalWithContext} + host-caller scenarios (2-3 host threads) + two interpreters; states = executions (nodes of the schedule tree), transitions = scheduling points executed, non-trivial = executions with >= 2 threads, >= 2 channel/lock operations and at least one context switch")
	r.Assumptions = []string{"sequentially consistent memory, atomic blocks between scheduling points (the separate free-running -race pass is the guard for the rest)", "bounded preemptions, 2-3 threads, 1-3 items", "expected outputs come from the natively compiled twins"}
	r.Sample(map[string]interface{}{"scenario": scs[0].Name, "schedule": []int{}, "src": scs[0].Src})
	if len(jobs) > 0 {
		r.Sample(map[string]interface{}{"scenario": scs[jobs[len(jobs)/2].Sc].Name, "schedule_prefix": jobs[len(jobs)/2].Prefix})
	}
	r.Finish()
}

var raceFrame = regexp.MustCompile(`github.com/traefik/yaegi/interp\.([A-Za-z0-9_]+)`)

// racePass runs the separately built -race binary (free-running, real goroutines and real sync) and reports
// every data race whose stacks contain interpreter frames. Dynamic race detection: not exhaustive.
func racePass(r *report.Run) {
	bin := filepath.Join(report.Root, "bin", "c08race")
	if _, err := os.Stat(bin); err != nil {
		r.HarnessError("race binary missing: %v", err)
		return
	}
	reps := "2"
	if r.Thorough() {
		reps = "10"
	}
	cmd := exec.Command(bin, reps)
	cmd.Env = append(os.Environ(), "GORACE=halt_on_error=0")
	var so, se bytes.Buffer
	cmd.Stdout, cmd.Stderr = &so, &se
	done := make(chan error, 1)
	go func() { done <- cmd.Run() }()
	select {
	case <-done:
	case <-time.After(15 * time.Minute):
		cmd.Process.Kill()
		r.Set("race_pass_timeout", true)
	}
	blocks := strings.Split(se.String(), "WARNING: DATA RACE")
	reports := 0
	seen := map[string]bool{}
	for _, b := range blocks[1:] {
		fr := raceFrame.FindAllStringSubmatch(b, -1)
		if len(fr) == 0 {
			continue
		}
		reports++
		// the finding is named after the interpreter function(s) that WRITE the racy location (the innermost
		// interpreter frame of every "Write at" / "Previous write at" stack); the reading side varies from run to run
		funcs := map[string]bool{}
		for _, part := range strings.Split(b, "\n\n") {
			head := strings.ToLower(strings.SplitN(strings.TrimSpace(part), "\n", 2)[0])
			if strings.Contains(head, "write") {
				if m := raceFrame.FindStringSubmatch(part); m != nil {
					funcs[m[1]] = true
				}
			}
		}
		if len(funcs) == 0 {
			if m := raceFrame.FindStringSubmatch(b); m != nil {
				funcs[m[1]] = true
			}
		}
		var fl []string
		for f := range funcs {
			fl = append(fl, f)
		}
		sort.Strings(fl)
		key := "race-pass: racy write in interp." + strings.Join(fl, " / interp.")
		if !seen[key] {
			seen[key] = true
			lines := strings.Split(strings.TrimSpace(b), "\n")
			if len(lines) > 14 {
				lines = lines[:14]
			}
			r.Fail(report.Failure{Key: key, What: key + ": " + strings.Join(lines, " | "), Case: map[string]interface{}{"report": b}})
		}
	}
	for _, l := range strings.Split(so.String(), "\n") {
		if strings.HasPrefix(l, "race-pass hang:") {
			name := strings.Fields(strings.TrimSpace(strings.TrimPrefix(l, "race-pass hang:")))
			if len(name) > 2 {
				name = name[:2] // template family, whatever the goroutine count
			}
			key := "race-pass: free-running hang of " + strings.Join(name, " ")
			if !seen[key] {
				seen[key] = true
				r.Fail(report.Failure{Key: key, What: key, Case: key})
			}
		}
		if strings.HasPrefix(l, "race-pass runs:") {
			r.Set("race_pass_summary", l)
		}
	}
	if !strings.Contains(so.String(), "race-pass runs:") {
		// on the pinned tree every template of the pass completes; free-running, an unrecovered panic in a goroutine of a
		// template (which no schedule-independent program may raise) kills the whole pass
		key := "race-pass: the free-running binary died (unrecovered panic or fatal error in a template)"
		r.Fail(report.Failure{Key: key, What: key + ": " + lastLine(se.String()), Case: map[string]interface{}{"stderr_tail": lastLine(se.String())}})
	}
	r.Set("race_reports_with_interpreter_frames", reports)
}

func lastLine(s string) string {
	l := strings.Split(strings.TrimSpace(s), "\n")
	if len(l) > 6 {
		l = l[len(l)-6:]
	}
	return strings.Join(l, " | ")
}
