// Free-running data-race pass for C08: the same harness bodies as the exploration, executed by real
// goroutines with real sync primitives under the Go race detector (build: go build -race). A cooperative
// scheduler's hand-offs are happens-before edges that blind the detector, hence this separate pass. It is
// dynamic race detection, not exhaustive exploration, and is reported under its own evidence keys.
package main

import (
	"bytes"
	"fmt"
	"os"
	"reflect"
	"runtime"
	"strconv"
	"strings"
	"sync"
	"time"

	"github.com/traefik/yaegi/interp"
	"github.com/traefik/yaegi/stdlib"
	"verif/engine/twin/h"
	"verif/props/c08/tmpl"
)

func main() {
	reps := 3
	if len(os.Args) > 1 {
		reps, _ = strconv.Atoi(os.Args[1])
	}
	runs, hangs := 0, 0
	for _, procs := range []int{1, 2, 4, 16} {
		runtime.GOMAXPROCS(procs)
		for r := 0; r < reps; r++ {
			for _, t := range tmpl.All() {
				if strings.Contains(t.Name, "form=method") {
					// go wk.run(...) reads its receiver late on the pinned tree (listed finding of the exploration pass): the
					// resulting race with the parent's reassignment would be reported under varying writer functions
					continue
				}
				var buf bytes.Buffer
				steps := 0
				i := interp.New(interp.Options{Stdout: &buf, Stderr: &bytes.Buffer{}})
				i.Use(stdlib.Symbols)
				i.Use(h.Exports(&buf, &steps))
				done := make(chan struct{})
				go func() {
					defer close(done)
					defer func() { recover() }()
					i.Eval(t.Src)
				}()
				select {
				case <-done:
				case <-time.After(60 * time.Second):
					// a free-running hang (e.g. the select cross-talk defect): reported, the goroutines are abandoned
					fmt.Println("race-pass hang:", t.Name)
					hangs++
				}
				runs++
			}
			// host callers
			var buf bytes.Buffer
			i := interp.New(interp.Options{Stdout: &buf, Stderr: &bytes.Buffer{}})
			i.Use(stdlib.Symbols)
			if _, err := i.Eval(tmpl.HostFuncs); err == nil {
				sum, _ := i.Eval("Sum")
				inc, _ := i.Eval("Inc")
				pair, _ := i.Eval("Pair")
				apply, _ := i.Eval("Apply")
				var wg sync.WaitGroup
				for k := 0; k < 4; k++ {
					wg.Add(1)
					go func(k int) {
						defer wg.Done()
						defer func() { recover() }()
						sum.Call([]reflect.Value{reflect.ValueOf(k), reflect.ValueOf(k + 4)})
						inc.Call(nil)
						pair.Call([]reflect.Value{reflect.ValueOf(k)})
						apply.Call([]reflect.Value{reflect.ValueOf(k)})
					}(k)
				}
				wg.Wait()
				runs++
			}
		}
	}
	fmt.Println("race-pass runs:", runs, "hangs:", hangs)
}
