// Generator for C05: finite space of type-hierarchy shapes x holder forms x use forms,
// plus interpreted values handed to compiled consumers (fmt, sort, io, errors).
package main

import (
	"flag"
	"fmt"
	"os"
	"strings"

	"verif/engine/twin/emit"
)

var progs, rejected = []emit.Src{}, 0

func main() {
	tier := flag.String("tier", "quick", "")
	flag.Parse()
	thorough := true // quick tier promoted to the full depth-3 use set (round d); *tier kept for the command line
	_ = tier
	head := "package main\n\nimport . \"verif/engine/twin/h\"\n\n"
	// ---- family S: hierarchy shapes x holders x uses
	for _, depth := range []int{2, 3} {
		for _, rB := range []string{"B", "*B"} {
			for _, emb := range []string{"B", "*B", "I"} { // how T embeds the level below: value, pointer, interface field
				for _, sh := range []string{"", "T", "*T"} { // shadowing M at T
					for _, emb2 := range []string{"T", "*T"} { // depth 3: how U embeds T
						if depth == 2 && emb2 != "T" {
							continue
						}
						for _, holder := range []string{"val", "ptr"} {
							top := "T"
							if depth == 3 {
								top = "U"
							}
							decl := "type B struct{ N int }\n\n"
							decl += fmt.Sprintf("func (b %s) M() string { b.N++; return \"B.M\" }\n\n", rB)
							decl += "func (b B) N2() string { return \"B.N2\" }\n\n"
							decl += "type I interface{ M() string }\n\ntype J interface {\n\tM() string\n\tN2() string\n}\n\n"
							decl += fmt.Sprintf("type T struct {\n\t%s\n\tK int\n}\n\n", emb)
							if sh != "" {
								decl += fmt.Sprintf("func (t %s) M() string { t.K++; return \"T.M\" }\n\n", sh)
							}
							var inner string
							switch emb {
							case "B":
								inner = "T{B: B{1}}"
							case "*B":
								inner = "T{B: &B{1}}"
							case "I":
								if rB == "B" {
									inner = "T{I: B{1}}"
								} else {
									inner = "T{I: &B{1}}"
								}
							}
							lit := inner
							if depth == 3 {
								decl += fmt.Sprintf("type U struct {\n\t%s\n\tL int\n}\n\n", emb2)
								if emb2 == "T" {
									lit = "U{T: " + inner + "}"
								} else {
									lit = "U{T: &" + inner + "}"
								}
							}
							init := "v := " + lit
							if holder == "ptr" {
								init = "v := &" + lit
							}
							state := "Show(v.K)"
							if emb != "I" {
								state = "Show(v.N, v.K)"
							}
							uses := [][2]string{
								{"call", "Show(v.M())\nShow(v.M())\n" + state},
								{"mval", "f := v.M\nShow(f())\nShow(f())\n" + state},
								{"mexpr", "Show(" + top + ".M(v))\n" + state},
								{"mexprP", "Show((*" + top + ").M(v))\n" + state},
								{"mexprPaddr", "Show((*" + top + ").M(&v))\n" + state},
								{"iface", "var i I = v\nShow(i.M())\nShow(i.M())\n" + state},
								{"ifaceaddr", "var i I = &v\nShow(i.M())\n" + state},
								{"assert", "var e interface{} = v\nif i, ok := e.(I); ok {\nShow(\"I\", i.M())\n} else {\nShow(\"not I\")\n}\n_, okJ := e.(J)\nShow(okJ)\n" + state},
								{"assert1", "var i I = v\nj := i.(J)\nShow(j.N2())\n" + state},
								{"assertConc", "var i I = v\nif c, ok := i.(" + top + "); ok {\nShow(\"val\", c.K)\n}\nif c, ok := i.(*" + top + "); ok {\nShow(\"ptr\", c.K)\n}\n" + state},
								{"switchJI", "var e interface{} = v\nswitch x := e.(type) {\ncase J:\nShow(\"J\", x.M(), x.N2())\ncase I:\nShow(\"I\", x.M())\ncase " + top + ":\nShow(\"val\", x.K)\ncase *" + top + ":\nShow(\"ptr\", x.K)\ndefault:\nShow(\"other\")\n}\n" + state},
								{"switchConcFirst", "var e interface{} = v\nswitch x := e.(type) {\ncase *" + top + ":\nShow(\"ptr\", x.K)\ncase " + top + ":\nShow(\"val\", x.K)\ncase I:\nShow(\"I\", x.M())\ndefault:\nShow(\"other\")\n}\n" + state},
								{"switchIJ", "var e interface{} = v\nswitch x := e.(type) {\ncase nil:\nShow(\"nil\")\ncase I:\nShow(\"I\", x.M())\ncase J:\nShow(\"J\", x.N2())\ndefault:\nShow(\"other\")\n}\n" + state},
								{"ifaceJ", "var j J = v\nShow(j.M(), j.N2())\nvar i I = j\nShow(i.M())\n_, ok := i.(J)\nShow(ok)\n" + state},
								{"promotedN2", "Show(v.N2())\ng := v.N2\nShow(g())\n" + state},
								{"passI", "Show(callI(v))\n" + state},
								{"sliceI", "is := []I{v, v}\nfor _, i := range is {\nShow(i.M())\n}\n" + state},
								{"mapI", "mi := map[string]I{\"a\": v}\nShow(mi[\"a\"].M())\n" + state},
							}
							if !thorough && depth == 3 {
								// quick: depth 3 with the principal uses only
								uses = [][2]string{uses[0], uses[1], uses[5], uses[7], uses[10], uses[13], uses[15]}
							}
							for _, u := range uses {
								name := fmt.Sprintf("S d=%d rB=%s emb=%s sh=%s emb2=%s h=%s u=%s", depth, rB, emb, orDash(sh), emb2, holder, u[0])
								body := "func callI(i I) string { return i.M() + i.M() }\n\nfunc main() {\n" + init + "\n" + u[1] + "\n}\n"
								progs = append(progs, emit.Src{Name: name, Text: head + decl + body})
							}
						}
					}
				}
			}
		}
	}
	// ---- family D: shadowing with a DIFFERENT signature, and ambiguous / depth-resolved promotions:
	// which script-defined interfaces the dynamic type satisfies must follow the outermost method only
	ifaces := "type IS interface{ M() string }\n\ntype II interface{ M() int }\n\ntype IA interface{ M(x int) string }\n\n"
	for _, embB := range []string{"B", "*B"} {
		for _, sig := range []string{"none", "same", "int", "arg"} {
			for _, shRecv := range []string{"T", "*T"} {
				if sig == "none" && shRecv != "T" {
					continue
				}
				for _, depth := range []string{"2", "3v", "3p"} {
					for _, holder := range []string{"val", "ptr"} {
						decl := "type B struct{ N int }\n\nfunc (b B) M() string { return \"B.M\" }\n\n" + ifaces
						decl += fmt.Sprintf("type T struct {\n\t%s\n\tK int\n}\n\n", embB)
						direct := "Show(v.M())"
						switch sig {
						case "same":
							decl += fmt.Sprintf("func (t %s) M() string { return \"T.M\" }\n\n", shRecv)
						case "int":
							decl += fmt.Sprintf("func (t %s) M() int { return 70 + t.K }\n\n", shRecv)
						case "arg":
							decl += fmt.Sprintf("func (t %s) M(x int) string { return \"T.M/arg\" }\n\n", shRecv)
							direct = "Show(v.M(3))"
						}
						inner := "T{B: B{1}, K: 2}"
						if embB == "*B" {
							inner = "T{B: &B{1}, K: 2}"
						}
						lit := inner
						switch depth {
						case "3v":
							decl += "type U struct {\n\tT\n\tL int\n}\n\n"
							lit = "U{T: " + inner + "}"
						case "3p":
							decl += "type U struct {\n\t*T\n\tL int\n}\n\n"
							lit = "U{T: &" + inner + "}"
						}
						init := "v := " + lit
						if holder == "ptr" {
							init = "v := &" + lit
						}
						uses := [][2]string{
							{"assertAll", "var e interface{} = v\n_, ok1 := e.(IS)\n_, ok2 := e.(II)\n_, ok3 := e.(IA)\nShow(ok1, ok2, ok3)"},
							{"assertCall", "var e interface{} = v\nif x, ok := e.(II); ok {\nShow(\"II\", x.M())\n}\nif x, ok := e.(IS); ok {\nShow(\"IS\", x.M())\n}\nif x, ok := e.(IA); ok {\nShow(\"IA\", x.M(4))\n}"},
							{"assert1II", "defer func() { Show(recover() != nil) }()\nvar e interface{} = v\nx := e.(II)\nShow(x.M())"},
							{"assert1IS", "defer func() { Show(recover() != nil) }()\nvar e interface{} = v\nx := e.(IS)\nShow(x.M())"},
							{"switchSIA", "var e interface{} = v\nswitch e.(type) {\ncase IS:\nShow(\"IS\")\ncase II:\nShow(\"II\")\ncase IA:\nShow(\"IA\")\ndefault:\nShow(\"none\")\n}"},
							{"switchAIS", "var e interface{} = v\nswitch e.(type) {\ncase IA:\nShow(\"IA\")\ncase II:\nShow(\"II\")\ncase IS:\nShow(\"IS\")\ndefault:\nShow(\"none\")\n}"},
							{"direct", direct},
							{"innerPath", "Show(v.B.M())"},
							{"viaNamedIface", "type Namer interface{ Name() string }\nvar e interface{} = v\n_, okN := e.(Namer)\n_, okS := e.(IS)\nShow(okN, okS)"},
						}
						for _, u := range uses {
							name := fmt.Sprintf("D embB=%s sig=%s shRecv=%s depth=%s h=%s u=%s", embB, sig, shRecv, depth, holder, u[0])
							progs = append(progs, emit.Src{Name: name, Text: head + decl + "func main() {\n" + init + "\n" + u[1] + "\n}\n"})
						}
					}
				}
			}
		}
	}
	// ambiguity and depth resolution: two embedded types providing M
	for _, shape := range [][2]string{
		{"same-depth-ambiguous", "type B1 struct{}\n\nfunc (B1) M() string { return \"B1.M\" }\n\ntype B2 struct{}\n\nfunc (B2) M() int { return 2 }\n\ntype T struct {\n\tB1\n\tB2\n}\n\n"},
		{"shallower-wins-string", "type B1 struct{}\n\nfunc (B1) M() string { return \"B1.M\" }\n\ntype B2 struct{}\n\nfunc (B2) M() int { return 2 }\n\ntype C struct{ B2 }\n\ntype T struct {\n\tB1\n\tC\n}\n\n"},
		{"shallower-wins-int", "type B1 struct{}\n\nfunc (B1) M() string { return \"B1.M\" }\n\ntype B2 struct{}\n\nfunc (B2) M() int { return 2 }\n\ntype C struct{ B1 }\n\ntype T struct {\n\tC\n\tB2\n}\n\n"},
		{"deep-left-shallow-right", "type B1 struct{}\n\nfunc (B1) M() string { return \"B1.M\" }\n\ntype B2 struct{}\n\nfunc (B2) M() int { return 2 }\n\ntype C struct{ B1 }\n\ntype D struct{ C }\n\ntype T struct {\n\tD\n\tB2\n}\n\n"},
		{"deep-right-shallow-left", "type B1 struct{}\n\nfunc (B1) M() string { return \"B1.M\" }\n\ntype B2 struct{}\n\nfunc (B2) M() int { return 2 }\n\ntype C struct{ B2 }\n\ntype D struct{ C }\n\ntype T struct {\n\tB1\n\tD\n}\n\n"},
		{"pointer-embedded-deeper", "type B1 struct{}\n\nfunc (B1) M() string { return \"B1.M\" }\n\ntype B2 struct{}\n\nfunc (*B2) M() int { return 2 }\n\ntype C struct{ *B2 }\n\ntype T struct {\n\tC\n\tB1\n}\n\n"},
		{"field-shadows-method", "type B1 struct{}\n\nfunc (B1) M() string { return \"B1.M\" }\n\ntype T struct {\n\tB1\n\tM int\n}\n\n"},
		{"outer-int-over-two-inner", "type B1 struct{}\n\nfunc (B1) M() string { return \"B1.M\" }\n\ntype B2 struct{}\n\nfunc (B2) M() string { return \"B2.M\" }\n\ntype T struct {\n\tB1\n\tB2\n}\n\nfunc (T) M() int { return 9 }\n\n"},
	} {
		for _, holder := range []string{"val", "ptr"} {
			init := "v := T{}"
			if holder == "ptr" {
				init = "v := &T{}"
			}
			for _, u := range [][2]string{
				{"assertAll", "var e interface{} = v\n_, ok1 := e.(IS)\n_, ok2 := e.(II)\nShow(ok1, ok2)"},
				{"assertCall", "var e interface{} = v\nif x, ok := e.(II); ok {\nShow(\"II\", x.M())\n}\nif x, ok := e.(IS); ok {\nShow(\"IS\", x.M())\n}"},
				{"switch", "var e interface{} = v\nswitch e.(type) {\ncase IS:\nShow(\"IS\")\ncase II:\nShow(\"II\")\ndefault:\nShow(\"none\")\n}"},
				// direct uses; go/types rejects the ones that are ambiguous or not calls (counted, skipped); a method value is never printed (its address differs from run to run)
				{"direct", "Show(v.M())"},
				{"mval", "f := v.M\nShow(f())"},
				{"ifaceS", "var i IS = v\nShow(i.M())"},
				{"ifaceI", "var i II = v\nShow(i.M())"},
			} {
				progs = append(progs, emit.Src{Name: fmt.Sprintf("D2 shape=%s h=%s u=%s", shape[0], holder, u[0]), Text: head + shape[1] + ifaces + "func main() {\n" + init + "\n" + u[1] + "\n}\n"})
			}
		}
	}
	// ---- family N: nil interface values and typed nil pointers
	for _, rB := range []string{"B", "*B"} {
		decl := "type B struct{ N int }\n\n" + fmt.Sprintf("func (b %s) M() string { return \"B.M\" }\n\n", rB) + "type I interface{ M() string }\n\n"
		for _, u := range [][2]string{
			{"nilIface==", "var i I\nShow(i == nil)\nvar e interface{} = i\nShow(e == nil)"},
			{"nilIfaceAssert", "var i I\n_, ok := i.(I)\nShow(ok)\nvar e interface{}\n_, ok2 := e.(I)\nShow(ok2)"},
			{"nilIfaceSwitch", "var e interface{}\nswitch e.(type) {\ncase nil:\nShow(\"nil\")\ncase I:\nShow(\"I\")\ndefault:\nShow(\"other\")\n}"},
			{"nilIfaceCall", "defer func() { Show(recover() != nil) }()\nvar i I\nShow(i.M())"},
			{"typedNil", "var p *B\nvar i I = p\nShow(i == nil)\n_, ok := i.(*B)\nShow(ok)"},
			{"typedNilSwitch", "var p *B\nvar e interface{} = p\nswitch x := e.(type) {\ncase nil:\nShow(\"nil\")\ncase *B:\nShow(\"*B\", x == nil)\ndefault:\nShow(\"other\")\n}"},
			{"assertPanic", "defer func() { Show(recover() != nil) }()\nvar e interface{} = 3\ni := e.(I)\nShow(i.M())"},
		} {
			if rB == "B" && strings.HasPrefix(u[0], "typedNil") {
				continue // *B in I needs the pointer receiver case or value receiver: both are legal, keep only *B for brevity
			}
			progs = append(progs, emit.Src{Name: fmt.Sprintf("N rB=%s u=%s", rB, u[0]), Text: head + decl + "func main() {\n" + u[1] + "\n}\n"})
		}
	}
	// ---- family H: interpreted values handed to compiled code expecting an interface
	hhead := "package main\n\nimport (\n\t\"errors\"\n\t\"fmt\"\n\t\"io\"\n\t\"sort\"\n\t\"strings\"\n\n\t. \"verif/engine/twin/h\"\n)\n\nvar _ = errors.New\nvar _ = io.EOF\nvar _ = sort.Ints\nvar _ = strings.ToUpper\nvar _ = fmt.Sprint\n\n"
	for _, recv := range []string{"S", "*S"} {
		for _, holder := range []string{"val", "ptr"} {
			mk := "v := S{N: 2, Xs: []int{3, 1, 2}}"
			if holder == "ptr" {
				mk = "v := &S{N: 2, Xs: []int{3, 1, 2}}"
			}
			base := "type S struct {\n\tN  int\n\tXs []int\n\tW  []byte\n\tR  int\n}\n\n"
			mString := fmt.Sprintf("func (s %s) String() string { return fmt.Sprint(\"S#\", s.N) }\n\n", recv)
			mError := fmt.Sprintf("func (s %s) Error() string { return fmt.Sprint(\"E#\", s.N) }\n\n", recv)
			mSort := fmt.Sprintf("func (s %s) Len() int { return len(s.Xs) }\n\nfunc (s %s) Less(i, j int) bool { return s.Xs[i] < s.Xs[j] }\n\nfunc (s %s) Swap(i, j int) { s.Xs[i], s.Xs[j] = s.Xs[j], s.Xs[i] }\n\n", recv, recv, recv)
			mWrite := "func (s *S) Write(p []byte) (int, error) { s.W = append(s.W, p...); return len(p), nil }\n\n"
			mRead := "func (s *S) Read(p []byte) (int, error) {\n\tif s.R >= 3 {\n\t\treturn 0, io.EOF\n\t}\n\ts.R++\n\tp[0] = byte('a' + s.R)\n\treturn 1, nil\n}\n\n"
			pv := "v"
			if holder == "val" {
				pv = "&v"
			}
			uses := [][3]string{
				{"stringerSprint", mString, "Show(fmt.Sprint(v))"},
				{"stringerSprintf", mString, "Show(fmt.Sprintf(\"%v|%s|%d\", v, v, 7))"},
				{"stringerIface", mString, "var st fmt.Stringer = v\nShow(st.String())\nShow(fmt.Sprint(st))"},
				{"stringerPrintln", mString, "Show(fmt.Sprintln(\"x\", v))"},
				{"errorValue", mError, "var err error = v\nShow(err.Error())\nShow(fmt.Sprint(err))"},
				{"errorWrap", mError, "var err error = v\nw := fmt.Errorf(\"wrap: %w\", err)\nShow(w.Error())\nShow(errors.Unwrap(w) != nil)"},
				{"errorsIs", mError, "var err error = fmt.Errorf(\"w: %w\", error(v))\nShow(errors.Is(err, error(v)))"},
				{"errorReturn", mError, "f := func() error { return v }\nif err := f(); err != nil {\nShow(\"err\", err.Error())\n}"},
				{"bothSprint", mString + mError, "Show(fmt.Sprint(v))"},
				{"sortSort", mSort, "sort.Sort(v)\nShow(v.Xs)\nShow(sort.IsSorted(v))"},
				{"sortReverse", mSort, "sort.Sort(sort.Reverse(v))\nShow(v.Xs)"},
				{"sortStable", mSort, "sort.Stable(v)\nShow(v.Xs)"},
				{"writerFprint", mWrite, "n, err := fmt.Fprint(" + pv + ", \"hi\", 3)\nShow(n, err, string(v.W))"},
				{"writerCopy", mWrite, "n, err := io.Copy(" + pv + ", strings.NewReader(\"abc\"))\nShow(n, err, string(v.W))"},
				{"writerStringerBoth", mWrite + mString, "n, err := fmt.Fprint(" + pv + ", \"hi\")\nShow(n, err, string(v.W), fmt.Sprint(v))"},
				{"readerReadAll", mRead, "b, err := io.ReadAll(" + pv + ")\nShow(string(b), err, v.R)"},
				{"readWriter", mRead + mWrite, "var rw io.ReadWriter = " + pv + "\nn, err := io.Copy(rw, rw)\nShow(n, err, string(v.W))"},
				{"sliceOfStringers", mString, "xs := []interface{}{v, 1, \"s\"}\nShow(fmt.Sprint(xs...))"},
				{"stringerInStruct", mString, "type W struct{ F fmt.Stringer }\nw := W{v}\nShow(w.F.String())"},
			}
			for _, u := range uses {
				progs = append(progs, emit.Src{Name: fmt.Sprintf("H recv=%s h=%s u=%s", recv, holder, u[0]), Text: hhead + base + u[1] + "func main() {\n" + mk + "\n" + u[2] + "\n}\n"})
			}
		}
	}
	// ---- family R: TWO live receivers of one type. Method values and calls through script interfaces must stay bound to
	// the receiver they were selected from when another value of the same type is selected in between (method values
	// kept in variables / slices, interleaved and nested calls); results and state depend on the receiver.
	for _, depth := range []string{"2", "3v", "3p"} {
		for _, rB := range []string{"B", "*B"} {
			for _, emb := range []string{"B", "*B"} {
				for _, sh := range []string{"", "T", "*T"} {
					for _, holder := range []string{"val", "ptr"} {
						decl := "type B struct{ N int }\n\n"
						decl += fmt.Sprintf("func (b %s) M() int { b.N += 10; return b.N }\n\n", rB)
						decl += fmt.Sprintf("func (b %s) Join(x int) int { return b.N*1000 + x }\n\n", rB)
						decl += "type I interface{ M() int }\n\ntype JI interface{ Join(x int) int }\n\n"
						decl += fmt.Sprintf("type T struct {\n\t%s\n\tK int\n}\n\n", emb)
						if sh != "" {
							decl += fmt.Sprintf("func (t %s) M() int { t.K += 100; return t.K }\n\n", sh)
						}
						mkInner := func(n string) string {
							if emb == "B" {
								return "T{B: B{" + n + "}, K: " + n + "}"
							}
							return "T{B: &B{" + n + "}, K: " + n + "}"
						}
						mk := mkInner
						switch depth {
						case "3v":
							decl += "type U struct {\n\tT\n\tL int\n}\n\n"
							mk = func(n string) string { return "U{T: " + mkInner(n) + "}" }
						case "3p":
							decl += "type U struct {\n\t*T\n\tL int\n}\n\n"
							mk = func(n string) string { return "U{T: &" + mkInner(n) + "}" }
						}
						amp := ""
						if holder == "ptr" {
							amp = "&"
						}
						init := "v := " + amp + mk("1") + "\nw := " + amp + mk("2")
						state := "Show(v.N, v.K, w.N, w.K)"
						uses := [][2]string{
							{"mval2", "var i1 I = v\nvar i2 I = w\nf := i1.M\ng := i2.M\nShow(f(), g(), f())\n" + state},
							{"interleave", "var i1 I = v\nvar i2 I = w\nf := i1.M\nShow(i2.M())\nShow(f())\n" + state},
							{"loopCollect", "var fs []func() int\nfor _, i := range []I{v, w} {\nfs = append(fs, i.M)\n}\nfor _, f := range fs {\nShow(f())\n}\n" + state},
							{"nested", "var j1 JI = v\nvar j2 JI = w\nShow(j1.Join(j2.Join(7)))\nShow(j2.Join(j1.Join(7)))\n" + state},
							{"nestedM", "var i1 I = v\nvar i2 I = w\nShow(i1.M() + 1000*i2.M())\nadd := func(a, b int) int { return a*1000 + b }\nShow(add(i1.M(), i2.M()))\n" + state},
							{"direct2", "f := v.M\ng := w.M\nShow(f(), g(), f())\nh := v.Join\nShow(w.Join(h(3)))\n" + state},
							{"mapOfMvals", "m := map[string]func() int{}\nfor k, i := range map[string]I{\"v\": v, \"w\": w} {\nm[k] = i.M\n}\nShow(m[\"v\"](), m[\"w\"](), m[\"v\"]())\n" + state},
							{"passBoth", "Show(both(v, w))\nShow(both(w, v))\n" + state},
						}
						for _, u := range uses {
							name := fmt.Sprintf("R d=%s rB=%s emb=%s sh=%s h=%s u=%s", depth, rB, emb, orDash(sh), holder, u[0])
							body := "func both(a, b I) int {\nf := a.M\nx := b.M()\nreturn f()*1000 + x\n}\n\nfunc main() {\n" + init + "\n" + u[1] + "\n}\n"
							progs = append(progs, emit.Src{Name: name, Text: head + decl + body})
						}
					}
				}
			}
		}
	}
	res, err := emit.Package(emit.Root()+"/gen/c05cases", "c05cases", progs, 64)
	if err != nil {
		fmt.Fprintln(os.Stderr, "HARNESS-ERROR:", err)
		os.Exit(3)
	}
	// combinations that Go itself rejects (method not in method set, non-addressable receiver...) are counted and skipped
	kinds := map[string]int{}
	for _, r := range res.Rejected {
		msg := r[strings.Index(r, ": ")+2:]
		if i := strings.Index(msg, ": "); i >= 0 {
			msg = msg[i+2:]
		}
		w := strings.Fields(msg)
		if len(w) > 3 {
			w = w[:3]
		}
		kinds[strings.Join(w, " ")]++
	}
	fmt.Printf("c05 gen tier=%s: generated=%d emitted=%d rejected-by-go/types=%d %v\n", *tier, len(progs), res.Emitted, len(res.Rejected), kinds)
	os.WriteFile(emit.Root()+"/gen/c05.rejected", []byte(fmt.Sprintf("%d\n", len(res.Rejected))), 0o644)
}

func orDash(s string) string {
	if s == "" {
		return "-"
	}
	return s
}
