// C05: method and interface dispatch against the compiled twin; host consumers are the real
// fmt / sort / io / errors entries of stdlib.Symbols.
package main

import (
	"strings"

	"github.com/traefik/yaegi/interp"
	"github.com/traefik/yaegi/stdlib"
	"verif/engine/par"
	"verif/engine/report"
	"verif/engine/twin"
	_ "verif/gen/c05cases"
)

var opt = twin.Options{Use: []interp.Exports{stdlib.Symbols}}

func main() {
	r := report.Start("C05", "model_checking")
	if r.Replay != "" {
		twin.Replay(r, opt)
	}
	r.Assumptions = []string{
		"reference = gc on the identical text; combinations rejected by go/types (method not in method set, non-addressable receiver, impossible assertion) are skipped and counted by the generator",
		"types are kept structurally distinct (documented reflect limitation of the interpreter)",
	}
	twin.Rekey = rekey
	twin.RunAll(r, nil, func(c twin.Case, n, i twin.Obs) string { return c.Name }, opt, par.Opts{})
	r.Set("exhaustive", true)
	r.Set("rule", "S: hierarchy depth 2-3 x receiver kind of B.M x embedding form (value, pointer, interface field) x shadowing (none, value, pointer) x holder (value, pointer) x 18 use forms; D: shadowing with a different signature (none/same/int result/extra parameter) x receiver x depth x holder x 9 assertion / type-switch / call forms against three script interfaces, and 5 ambiguity / depth-resolution shapes; R: two live receivers of one type x 8 use forms (method values kept in variables / slices / maps, interleaved and nested calls through script interfaces) x receiver kind x embedding x shadowing x depth x holder; N: nil interface / typed nil forms; H: interpreted S handed to fmt, errors, sort, io consumers x receiver kind x holder; non-trivial = output lines not all equal")
	r.Finish()
}

var simplest = map[string]string{"d": "2", "rB": "B", "emb": "B", "sh": "-", "emb2": "T", "h": "val", "recv": "S", "embB": "B", "shRecv": "T", "depth": "2"}

// rekey: substitute the simplest value for one dimension at a time (same use form) while the result still fails
// with the same symptom (identical first difference): a different misbehaviour of the complex case keeps its own key.
func rekey(name, key string, failing map[string]bool) string {
	cur := name
	for {
		next := ""
		f := strings.Fields(cur)
		for k := 1; k < len(f) && next == ""; k++ {
			dim, val, _ := strings.Cut(f[k], "=")
			s, ok := simplest[dim]
			if !ok || val == s {
				continue
			}
			nf := append([]string{}, f...)
			nf[k] = dim + "=" + s
			if dim == "d" {
				// depth 3 -> 2 forces emb2=T
				for j := range nf {
					if strings.HasPrefix(nf[j], "emb2=") {
						nf[j] = "emb2=T"
					}
				}
			}
			cand := strings.Join(nf, " ")
			if failing[cand] && twin.Symptoms[cand] == twin.Symptoms[name] {
				next = cand
			}
		}
		if next == "" {
			return cur
		}
		cur = next
	}
}
