// Generator for the argument-form family of C07: how the argument of a host call is WRITTEN at the call site
// (variable, literal, call of a script function, multi-result forwarding, field, element, method result, closure
// result, assertion, dereference, channel receive, script-interface-typed expressions) x the value's type x the
// host parameter it is passed to. Each program is run natively and interpreted (E2); the host function renders
// what it received.
package main

import (
	"flag"
	"fmt"
	"os"
	"strings"

	"verif/engine/twin/emit"
)

type vt struct {
	name, typ, lit string
	decl           string   // type declarations needed
	hosts          []string // host call templates; X is the argument expression
	shape          bool     // implements the script interface Shape
}

const shapeDecl = "type Shape interface{ Area() int }\n\n"

var vts = []vt{
	{"int", "int", "12", "", []string{"HInt(X)", "HAny(X)", "HVar(X, X)", "HTwo(X, 5)", "HVar(1, X)"}, false},
	{"string", "string", `"hé"`, "", []string{"HStr(X)", "HAny(X)", "HVar(X)"}, false},
	{"ints", "[]int", "[]int{4, 5}", "", []string{"HInts(X)", "HAny(X)", "HVar(X)"}, false},
	{"struct", "P", "P{3, \"p\"}", "type P struct {\n\tA int\n\tB string\n}\n\n", []string{"HAny(X)", "HVar(X, X)", "HTwo(X, 5)"}, false},
	{"structptr", "*P", "&P{3, \"p\"}", "type P struct {\n\tA int\n\tB string\n}\n\n", []string{"HAny(X)", "HVar(X)"}, false},
	{"num", "Num", "Num(12)", "type Num int\n\nfunc (n Num) Area() int { return int(n) * 2 }\n\n", []string{"HAny(X)", "HVar(X, 1)", "HTwo(X, 5)", "HInt(int(X))"}, true},
	{"sq", "Sq", "Sq{4}", "type Sq struct{ S int }\n\nfunc (s Sq) Area() int { return s.S * s.S }\n\n", []string{"HAny(X)", "HVar(X)", "HTwo(X, 5)"}, true},
	{"sqptr", "*Sq", "&Sq{4}", "type Sq struct{ S int }\n\nfunc (s *Sq) Area() int { return s.S * s.S }\n\n", []string{"HAny(X)", "HVar(X)"}, true},
	{"err", "error", "E{7}", "type E struct{ C int }\n\nfunc (e E) Error() string { return \"E!\" }\n\n", []string{"HErr(X)", "HAny(X == nil)"}, false},
	{"fn", "func(int) int", "func(x int) int { return x * 3 }", "", []string{"HFn(X)", "HAny(X)"}, false},
	{"intp", "*int", "new(int)", "", []string{"HIntP(X)", "HAny(X)"}, false},
	{"anyint", "interface{}", "12", "", []string{"HAny(X)", "HVar(X, X)", "HTwo(X, 5)"}, false},
	{"map", "map[string]int", "map[string]int{\"k\": 1}", "", []string{"HAny(X)", "HVar(X)"}, false},
	// values of named script types and declared (not literal) functions
	{"namedfn", "func(int) int", "triple", "func triple(x int) int { return x * 3 }\n\n", []string{"HFn(X)", "HAny(X)"}, false},
	{"namedmap", "MT", "MT{\"k\": 2}", "type MT map[string]int\n\n", []string{"HAny(X)", "HVar(X)"}, false},
	{"nilnamedmap", "MT", "MT(nil)", "type MT map[string]int\n\n", []string{"HAny(X)", "HVar(X, 1)"}, false},
	{"namedslice", "IL", "IL{7, 8}", "type IL []int\n\n", []string{"HAny(X)", "HInts(X)", "HVar(X)"}, false},
	{"nilnamedslice", "IL", "IL(nil)", "type IL []int\n\n", []string{"HAny(X)", "HInts(X)"}, false},
	{"nilptr", "*P", "(*P)(nil)", "type P struct {\n\tA int\n\tB string\n}\n\n", []string{"HAny(X)", "HVar(X)"}, false},
	{"nilerr", "error", "error(nil)", "", []string{"HErr(X)", "HAny(X)"}, false},
	{"nilfn", "func(int) int", "(func(int) int)(nil)", "", []string{"HAny(X)", "HAny(X == nil)"}, false},
}

type form struct {
	name  string
	pre   string // package-level declarations (T, L substituted)
	setup string // statements in main before the call
	expr  string
	multi bool // expression yields (T, int): only for HTwo(X) forwarding
	shape bool // only for types implementing Shape: the static type of the expression is Shape
}

var forms = []form{
	{"var", "", "v := L", "v", false, false},
	{"literal", "", "", "L", false, false},
	{"call", "func mk() T { return L }\n\n", "", "mk()", false, false},
	{"callArg", "func id(x T) T { return x }\n\n", "v := L", "id(v)", false, false},
	{"callAny", "func mkA() interface{} { return L }\n\n", "", "mkA()", false, false},
	{"multi", "func mk2() (T, int) { return L, 7 }\n\n", "", "mk2()", true, false},
	{"field", "type W struct{ F T }\n\n", "w := W{L}", "w.F", false, false},
	{"index", "", "xs := []T{L}", "xs[0]", false, false},
	{"mapel", "", "m := map[string]T{\"k\": L}", "m[\"k\"]", false, false},
	{"method", "type K struct{ v T }\n\nfunc (k K) Get() T { return k.v }\n\n", "k := K{L}", "k.Get()", false, false},
	{"closure", "", "", "func() T { return L }()", false, false},
	{"assert", "", "var e interface{} = L", "e.(T)", false, false},
	{"deref", "", "p := new(T)\n*p = L", "*p", false, false},
	{"recv", "", "ch := make(chan T, 1)\nch <- L", "<-ch", false, false},
	// expressions whose STATIC type is the script interface Shape
	{"shapeVar", "", "var sh Shape = L", "sh", false, true},
	{"shapeCall", "func mkS() Shape { return L }\n\n", "", "mkS()", false, true},
	{"shapeMulti", "func mkS2() (Shape, int) { return L, 7 }\n\n", "", "mkS2()", true, true},
	{"shapeField", "type WS struct{ F Shape }\n\n", "ws := WS{L}", "ws.F", false, true},
	{"shapeMethod", "type KS struct{ v Shape }\n\nfunc (k KS) Get() Shape { return k.v }\n\n", "ks := KS{L}", "ks.Get()", false, true},
	{"shapeClosure", "", "", "func() Shape { return L }()", false, true},
	{"shapeIndex", "", "ss := []Shape{L}", "ss[0]", false, true},
	{"shapeRecv", "", "sc := make(chan Shape, 1)\nsc <- L", "<-sc", false, true},
}

// statement forms around the host call
var stmts = []struct{ name, tmpl string }{
	{"show", "Show(CALL)"},
	{"assign", "r := CALL\nShow(r)"},
	{"defer", "func() {\ndefer func() { Show(CALL) }()\n}()"},
	{"nested", "Show(HAny(CALL))"},
}

func main() {
	tier := flag.String("tier", "quick", "")
	flag.Parse()
	var progs []emit.Src
	for _, t := range vts {
		for _, f := range forms {
			if f.shape && !t.shape {
				continue
			}
			if f.name == "assert" && (t.name == "anyint" || t.name == "err" || t.name == "nilerr") {
				continue // e.(interface{}) / e.(error) on a script value: an assertion question (C05), it fails before any value crosses
			}
			for _, h := range t.hosts {
				if f.multi != (h == "HTwo(X, 5)") {
					continue
				}
				call := strings.ReplaceAll(h, "X", f.expr)
				if f.multi {
					call = "HTwo(" + f.expr + ")"
				} else if strings.Count(h, "X") > 1 && (f.name == "recv" || f.name == "shapeRecv") {
					continue // a receive cannot be written twice for one value
				}
				for _, st := range stmts {
					decl := t.decl
					if t.shape {
						decl += shapeDecl
					}
					text := "package main\n\nimport . \"verif/engine/twin/h\"\n\n" + decl + subTL(f.pre, t) + "func main() {\n" + subTL(f.setup, t) + "\n" + strings.ReplaceAll(st.tmpl, "CALL", subTL(call, t)) + "\n}\n"
					progs = append(progs, emit.Src{Name: fmt.Sprintf("F type=%s form=%s host=%s stmt=%s", t.name, f.name, strings.ReplaceAll(h, "X", "_"), st.name), Text: text})
				}
			}
		}
	}
	// family G: bool-returning variadic host functions x how the variadic values are written x where the call stands
	gcalls := []struct{ name, setup, call string }{
		{"sum listed", "", "HSumIs(6, 1, 2, 3)"},
		{"sum listed-false", "", "HSumIs(7, 1, 2, 3)"},
		{"sum spread-var", "xs := []int{1, 2, 3}", "HSumIs(6, xs...)"},
		{"sum spread-var-false", "xs := []int{1, 2, 3}", "HSumIs(5, xs...)"},
		{"sum spread-literal", "", "HSumIs(3, []int{1, 2}...)"},
		{"sum spread-call", "mk := func() []int { return []int{4, 5} }", "HSumIs(9, mk()...)"},
		{"sum spread-nil", "var xs []int", "HSumIs(0, xs...)"},
		{"sum none", "", "HSumIs(0)"},
		{"count listed", "", "HCountIs(3, 1, \"a\", 2.5)"},
		{"count spread-var", "ys := []interface{}{1, \"a\", 2.5}", "HCountIs(3, ys...)"},
		{"count spread-var-false", "ys := []interface{}{1, \"a\", 2.5}", "HCountIs(1, ys...)"},
		{"count slice-as-one", "ys := []interface{}{1, \"a\"}", "HCountIs(1, ys)"},
		{"count spread-empty", "ys := []interface{}{}", "HCountIs(0, ys...)"},
		{"str spread", "ss := []interface{}{\"p\", \"q\"}", "HVar(ss...) == \"Var 2 string|p string|q\""},
	}
	gstmts := []struct{ name, tmpl string }{
		{"if", "if CALL {\nShow(\"T\")\n} else {\nShow(\"F\")\n}"},
		{"ifnot", "if !CALL {\nShow(\"notT\")\n} else {\nShow(\"notF\")\n}"},
		{"for", "for n := 0; CALL && n < 2; n++ {\nShow(\"loop\", n)\n}\nShow(\"done\")"},
		{"forcond", "n := 0\nfor CALL {\nn++\nif n > 1 {\nbreak\n}\n}\nShow(\"n\", n)"},
		{"assign", "ok := CALL\nShow(ok)"},
		{"return", "Show(func() bool { return CALL }())"},
		{"and", "t := true\nif t && CALL {\nShow(\"T\")\n} else {\nShow(\"F\")\n}"},
		{"or", "f := false\nif f || CALL {\nShow(\"T\")\n} else {\nShow(\"F\")\n}"},
		{"switch", "switch {\ncase CALL:\nShow(\"T\")\ndefault:\nShow(\"F\")\n}"},
		{"show", "Show(CALL)"},
		{"defer", "func() {\ndefer func() { Show(CALL) }()\n}()"},
	}
	for _, c := range gcalls {
		for _, st := range gstmts {
			text := "package main\n\nimport . \"verif/engine/twin/h\"\n\nfunc main() {\n" + c.setup + "\n" + strings.ReplaceAll(st.tmpl, "CALL", c.call) + "\n}\n"
			progs = append(progs, emit.Src{Name: fmt.Sprintf("G call=%s stmt=%s", c.name, st.name), Text: text})
		}
	}
	// family R: how the RESULTS of a host call are stored: host function (1, 2, 3 results, error / struct results) x
	// destination form (define, plain assignment, redeclaration, blank, field / element / map / dereference) x what else
	// refers to the destination variable (nothing, a pointer taken before, a closure reading it, a closure writing it,
	// a closure created per loop iteration) x locals / package-level variables
	rcalls := []struct{ name, call, vars, types, zero string }{
		{"pair", "HPair(K)", "a, s", "int | string", "a, s = 1, \"z\""},
		{"triple", "HTriple(K)", "a, b, c", "int | int | int", "a, b, c = 1, 2, 3"},
		{"divmod", "HDivMod(17, K)", "a, b, err", "int | int | error", "a, b = 1, 2"},
		{"double", "HDouble(K)", "a", "int", "a = 1"},
		{"struct", "HStruct(K)", "st, ok", "struct{ A, B int } | bool", "ok = false"},
	}
	for _, c := range rcalls {
		vars := strings.Split(c.vars, ", ")
		types := strings.Split(c.types, " | ")
		first := vars[0]
		decl := ""
		for i, v := range vars {
			decl += "var " + v + " " + types[i] + "\n"
		}
		show := "Show(" + c.vars + ")"
		call := func(k string) string { return strings.ReplaceAll(c.call, "K", k) }
		type rform struct{ name, body string }
		rforms := []rform{
			{"define", c.vars + " := " + call("2") + "\n" + show},
			{"assign", decl + c.zero + "\n" + c.vars + " = " + call("2") + "\n" + show},
			{"assign-ptr-before", decl + c.zero + "\np := &" + first + "\n" + c.vars + " = " + call("2") + "\nShow(*p)\n" + show + "\n*p = *new(" + types[0] + ")\n" + show},
			{"assign-closure-reads", decl + c.zero + "\nget := func() " + types[0] + " { return " + first + " }\n" + c.vars + " = " + call("2") + "\nShow(get())\n" + show},
			{"assign-closure-writes", decl + c.zero + "\nreset := func() { " + first + " = *new(" + types[0] + ") }\n" + c.vars + " = " + call("2") + "\n" + show + "\nreset()\n" + show},
			{"assign-twice", decl + c.zero + "\np := &" + first + "\n" + c.vars + " = " + call("2") + "\n" + c.vars + " = " + call("3") + "\nShow(*p)\n" + show},
			{"define-then-ptr-then-assign", c.vars + " := " + call("2") + "\np := &" + first + "\n" + c.vars + " = " + call("3") + "\nShow(*p)\n" + show},
			{"loop-closures", decl + c.zero + "\nvar fs []func() " + types[0] + "\nfor i := 1; i < 3; i++ {\n" + c.vars + " = " + call("i") + "\nfs = append(fs, func() " + types[0] + " { return " + first + " })\n}\nfor _, f := range fs {\nShow(f())\n}\n" + show},
			{"loop-define-closures", "var fs []func() " + types[0] + "\nfor i := 1; i < 3; i++ {\n" + c.vars + " := " + call("i") + "\nfs = append(fs, func() " + types[0] + " { return " + first + " })\n" + show + "\n}\nfor _, f := range fs {\nShow(f())\n}"},
			{"in-closure-captured", decl + c.zero + "\nfunc() {\n" + c.vars + " = " + call("2") + "\n}()\n" + show},
			{"param-dest", "func(" + first + " " + types[0] + ") {\n" + decl[strings.Index(decl, "\n")+1:] + "p := &" + first + "\n" + c.vars + " = " + call("2") + "\nShow(*p)\n" + show + "\n}(*new(" + types[0] + "))"},
		}
		if len(vars) > 1 {
			blank := "_, " + strings.Join(vars[1:], ", ")
			blankLast := strings.Join(vars[:len(vars)-1], ", ") + ", _"
			rforms = append(rforms,
				rform{"assign-blank-first", decl + c.zero + "\n" + blank + " = " + call("2") + "\n" + show},
				rform{"assign-blank-last", decl + c.zero + "\np := &" + first + "\n" + blankLast + " = " + call("2") + "\nShow(*p)\n" + show},
				rform{"redeclare", decl[:strings.Index(decl, "\n")+1] + first + " = *new(" + types[0] + ")\np := &" + first + "\n" + c.vars + " := " + call("2") + "\nShow(*p)\n" + show},
				rform{"assign-deref", decl + c.zero + "\np := &" + first + "\n*p, " + strings.Join(vars[1:], ", ") + " = " + call("2") + "\n" + show},
				rform{"assign-field-elem", "type H struct{ F " + types[0] + " }\nvar h H\nph := &h\narr := make([]" + types[1] + ", 2)\nsl := arr[:1]\n" + decl + "h.F, arr[0]" + strings.Repeat(", _", len(vars)-2) + " = " + call("2") + "\nShow(ph.F, sl[0])\n_, _ = " + vars[0] + ", " + vars[1] + func() string {
					x := ""
					for _, v := range vars[2:] {
						x += "\n_ = " + v
					}
					return x
				}()},
				rform{"assign-map", "m := map[string]" + types[0] + "{}\nm2 := m\n" + decl + "m[\"k\"]" + ", " + strings.Join(vars[1:], ", ") + " = " + call("2") + "\nShow(m2[\"k\"], len(m2))\n_ = " + first + "\n" + "Show(" + strings.Join(vars[1:], ", ") + ")"},
			)
		}
		for _, f := range rforms {
			text := "package main\n\nimport . \"verif/engine/twin/h\"\n\nfunc main() {\n" + f.body + "\n}\n"
			progs = append(progs, emit.Src{Name: fmt.Sprintf("R call=%s form=%s place=local", c.name, f.name), Text: text})
		}
		// package-level destinations
		gdecl := ""
		for i, v := range vars {
			gdecl += "var " + v + " " + types[i] + "\n"
		}
		gforms := []rform{
			{"assign", c.vars + " = " + call("2") + "\n" + show},
			{"assign-ptr-before", "p := &" + first + "\n" + c.vars + " = " + call("2") + "\nShow(*p)\n" + show + "\n*p = *new(" + types[0] + ")\n" + show},
			{"assign-closure-reads", "get := func() " + types[0] + " { return " + first + " }\n" + c.vars + " = " + call("2") + "\nShow(get())\n" + show},
			{"assign-via-func", "store()\n" + show + "\np := &" + first + "\nstore()\nShow(*p)"},
		}
		for _, f := range gforms {
			text := "package main\n\nimport . \"verif/engine/twin/h\"\n\n" + gdecl + "\nfunc store() {\n" + c.vars + " = " + call("5") + "\n}\n\nfunc main() {\n" + f.body + "\n}\n"
			progs = append(progs, emit.Src{Name: fmt.Sprintf("R call=%s form=%s place=global", c.name, f.name), Text: text})
		}
	}
	res, err := emit.Package(emit.Root()+"/gen/c07cases", "c07cases", progs, 32)
	if err != nil {
		fmt.Fprintln(os.Stderr, "HARNESS-ERROR:", err)
		os.Exit(3)
	}
	kinds := map[string]int{}
	for _, r := range res.Rejected {
		if strings.HasPrefix(r, "R ") {
			fmt.Fprintln(os.Stderr, "HARNESS-ERROR: family R program rejected by go/types:", r)
			os.Exit(3)
		}
		w := strings.Fields(r[strings.Index(r, ": ")+2:])
		if len(w) > 6 {
			w = w[len(w)-5:]
		}
		kinds[strings.Join(w, " ")]++
	}
	fmt.Printf("c07 gen tier=%s: generated=%d emitted=%d rejected-by-go/types=%d %v\n", *tier, len(progs), res.Emitted, len(res.Rejected), kinds)
}

// subTL substitutes the type and literal placeholders as whole words only.
func subTL(s string, t vt) string {
	var b strings.Builder
	for i := 0; i < len(s); i++ {
		c := s[i]
		word := func(j int) bool {
			return j < 0 || j >= len(s) || !(s[j] == '_' || s[j] >= '0' && s[j] <= '9' || s[j] >= 'a' && s[j] <= 'z' || s[j] >= 'A' && s[j] <= 'Z')
		}
		if (c == 'T' || c == 'L') && word(i-1) && word(i+1) {
			if c == 'T' {
				b.WriteString(t.typ)
			} else {
				b.WriteString(t.lit)
			}
			continue
		}
		b.WriteByte(c)
	}
	return b.String()
}
