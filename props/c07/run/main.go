// C07: values and calls cross the host/script boundary unchanged. Signature shapes are enumerated
// completely over a type alphabet (host functions of arbitrary signature are built with reflect.FuncOf /
// MakeFunc, script functions are generated text), in both directions, with recorders on both sides:
// the host must see exactly the script's arguments, the script exactly the host's results, and a script
// function called natively must behave as the same call made inside the script.
package main

import (
	"bytes"
	"errors"
	"fmt"
	"os"
	"reflect"
	"strings"
	"sync"
	"time"

	"github.com/traefik/yaegi/interp"
	"github.com/traefik/yaegi/stdlib"
	"verif/engine/par"
	"verif/engine/report"
	"verif/engine/twin"
	_ "verif/gen/c07cases"
)

type S struct {
	A int
	B string
}

type N struct {
	S
	P *S
	L []S
}

type ty struct {
	name string        // Go type text as seen by the script
	rt   reflect.Type  // host type
	lits []string      // script literals (index 0 = zero value)
	vals []interface{} // same values on the host side
}

var errX = errors.New("x")

var sp = &S{3, "p"}

func inc(x int) int { return x + 1 }

func sfn(s S) (S, error) { s.A++; return s, nil }

var T = []ty{
	{"int", reflect.TypeOf(0), []string{"0", "-7"}, []interface{}{0, -7}},
	{"int8", reflect.TypeOf(int8(0)), []string{"0", "-128"}, []interface{}{int8(0), int8(-128)}},
	{"uint16", reflect.TypeOf(uint16(0)), []string{"0", "65535"}, []interface{}{uint16(0), uint16(65535)}},
	{"uint64", reflect.TypeOf(uint64(0)), []string{"0", "^uint64(0)"}, []interface{}{uint64(0), uint64(18446744073709551615)}},
	{"float32", reflect.TypeOf(float32(0)), []string{"0", "1.5"}, []interface{}{float32(0), float32(1.5)}},
	{"float64", reflect.TypeOf(0.0), []string{"0", "-2.25"}, []interface{}{0.0, -2.25}},
	{"complex128", reflect.TypeOf(complex128(0)), []string{"complex(0, 0)", "complex(1, -2)"}, []interface{}{complex128(0), complex(1, -2)}},
	{"string", reflect.TypeOf(""), []string{`""`, `"hé"`}, []interface{}{"", "hé"}},
	{"bool", reflect.TypeOf(false), []string{"false", "true"}, []interface{}{false, true}},
	{"h.S", reflect.TypeOf(S{}), []string{"h.S{}", `h.S{A: 1, B: "b"}`}, []interface{}{S{}, S{1, "b"}}},
	{"*h.S", reflect.TypeOf(sp), []string{"nil", `&h.S{A: 3, B: "p"}`}, []interface{}{(*S)(nil), sp}},
	{"h.N", reflect.TypeOf(N{}), []string{"h.N{}", `h.N{S: h.S{A: 1}, P: &h.S{A: 2}, L: []h.S{{A: 3}}}`}, []interface{}{N{}, N{S: S{A: 1}, P: &S{A: 2}, L: []S{{A: 3}}}}},
	{"[2]int", reflect.TypeOf([2]int{}), []string{"[2]int{}", "[2]int{1, 2}"}, []interface{}{[2]int{}, [2]int{1, 2}}},
	{"[]int", reflect.TypeOf([]int{}), []string{"nil", "[]int{1, 2}"}, []interface{}{[]int(nil), []int{1, 2}}},
	{"[]h.S", reflect.TypeOf([]S{}), []string{"nil", "[]h.S{{A: 1}}"}, []interface{}{[]S(nil), []S{{A: 1}}}},
	{"map[string]int", reflect.TypeOf(map[string]int{}), []string{"nil", `map[string]int{"k": 1}`}, []interface{}{map[string]int(nil), map[string]int{"k": 1}}},
	{"error", reflect.TypeOf((*error)(nil)).Elem(), []string{"nil", "h.ErrX"}, []interface{}{error(nil), errX}},
	{"interface{}", reflect.TypeOf((*interface{})(nil)).Elem(), []string{"nil", "42"}, []interface{}{nil, 42}},
	{"func(int) int", reflect.TypeOf(inc), []string{"nil", "func(x int) int { return x + 1 }"}, []interface{}{(func(int) int)(nil), inc}},
	{"func(h.S) (h.S, error)", reflect.TypeOf(sfn), []string{"nil", "func(s h.S) (h.S, error) { s.A++; return s, nil }"}, []interface{}{(func(S) (S, error))(nil), sfn}},
}

// norm renders a value in an address-free, type-name-free form; functions are rendered by their behaviour.
func norm(v interface{}) string { return fmt.Sprintf("%#v", deref(reflect.ValueOf(v))) }

func deref(v reflect.Value) interface{} {
	if !v.IsValid() {
		return nil
	}
	if v.CanInterface() {
		if e, ok := v.Interface().(error); ok && e != nil {
			return "err:" + e.Error()
		}
	}
	switch v.Kind() {
	case reflect.Ptr:
		if v.IsNil() {
			return "nilptr"
		}
		return []interface{}{"ptr", deref(v.Elem())}
	case reflect.Struct:
		out := []interface{}{}
		for i := 0; i < v.NumField(); i++ {
			out = append(out, deref(v.Field(i)))
		}
		return out
	case reflect.Interface:
		if v.IsNil() {
			return nil
		}
		return deref(v.Elem())
	case reflect.Func:
		if v.IsNil() {
			return "nilfunc"
		}
		return "func:" + callFunc(v)
	case reflect.Slice, reflect.Map:
		if v.Len() == 0 {
			return fmt.Sprintf("empty-%s", v.Kind())
		}
		if v.Kind() == reflect.Slice {
			out := []interface{}{}
			for i := 0; i < v.Len(); i++ {
				out = append(out, deref(v.Index(i)))
			}
			return out
		}
		return fmt.Sprint(v)
	case reflect.Array:
		out := []interface{}{}
		for i := 0; i < v.Len(); i++ {
			out = append(out, deref(v.Index(i)))
		}
		return out
	}
	if !v.CanInterface() {
		return fmt.Sprint(v)
	}
	return v.Interface()
}

// callFunc characterises a function value by calling it on a fixed argument.
func callFunc(v reflect.Value) (s string) {
	defer func() {
		if r := recover(); r != nil {
			s = fmt.Sprint("panic:", r)
		}
	}()
	t := v.Type()
	var in []reflect.Value
	for i := 0; i < t.NumIn(); i++ {
		switch t.In(i).Kind() {
		case reflect.Int:
			in = append(in, reflect.ValueOf(5))
		case reflect.Struct:
			in = append(in, reflect.ValueOf(S{10, "z"}))
		default:
			in = append(in, reflect.Zero(t.In(i)))
		}
	}
	var parts []string
	for _, o := range v.Call(in) {
		parts = append(parts, norm(o.Interface()))
	}
	return strings.Join(parts, ",")
}

type kase struct {
	Kind   string `json:"kind"`   // sig | special
	Params []int  `json:"params"` // indexes into T
	Rets   []int  `json:"rets"`
	Vals   int    `json:"vals"` // value pattern: 0 all zero values, 1 all non-zero, 2 alternating
	Var    bool   `json:"variadic"`
	Name   string `json:"name,omitempty"`
}

func (k kase) desc() string {
	if k.Kind == "special" {
		return "special " + k.Name
	}
	var ps, rs []string
	for i, p := range k.Params {
		n := T[p].name
		if k.Var && i == len(k.Params)-1 {
			n = "..." + n
		}
		ps = append(ps, n)
	}
	for _, r := range k.Rets {
		rs = append(rs, T[r].name)
	}
	return fmt.Sprintf("func(%s) (%s) values=%d", strings.Join(ps, ", "), strings.Join(rs, ", "), k.Vals)
}

func (k kase) vi(pos int) int {
	switch k.Vals {
	case 0:
		return 0
	case 1:
		return 1
	}
	return (pos + 1) % 2
}

type fail struct {
	K    kase   `json:"case"`
	Dir  string `json:"direction"`
	What string `json:"what"`
	Key  string `json:"key"`
	Src  string `json:"src"`
}

func newInterp(out *bytes.Buffer, extra map[string]reflect.Value, withStd bool) *interp.Interpreter {
	i := interp.New(interp.Options{Stdout: out, Stderr: &bytes.Buffer{}})
	if withStd {
		i.Use(stdlib.Symbols)
	}
	ex := map[string]reflect.Value{"S": reflect.ValueOf((*S)(nil)), "N": reflect.ValueOf((*N)(nil)), "ErrX": reflect.ValueOf(&errX).Elem()}
	for k, v := range extra {
		ex[k] = v
	}
	i.Use(interp.Exports{"h/h": ex})
	return i
}

func guard(f func() error) (err error) {
	defer func() {
		if r := recover(); r != nil {
			err = fmt.Errorf("HOSTPANIC %v", r)
		}
	}()
	return f()
}

func sigCase(k kase) []fail {
	var fails []fail
	np, nr := len(k.Params), len(k.Rets)
	var pts, rts []reflect.Type
	for i, p := range k.Params {
		t := T[p].rt
		if k.Var && i == np-1 {
			t = reflect.SliceOf(t)
		}
		pts = append(pts, t)
	}
	for _, r := range k.Rets {
		rts = append(rts, T[r].rt)
	}
	ftype := reflect.FuncOf(pts, rts, k.Var)
	// expected argument / result renderings
	var wantArgs, argLits, wantRes, resLits []string
	var argVals, resVals []reflect.Value
	for i, p := range k.Params {
		v := T[p].vals[k.vi(i)]
		rv := reflect.New(T[p].rt).Elem()
		if v != nil {
			rv.Set(reflect.ValueOf(v))
		}
		argVals = append(argVals, rv)
		argLits = append(argLits, T[p].lits[k.vi(i)])
		if k.Var && i == np-1 {
			// the variadic tail is passed as two values
			wantArgs = append(wantArgs, norm(reflect.Append(reflect.MakeSlice(pts[i], 0, 2), rv, rv).Interface()))
		} else {
			wantArgs = append(wantArgs, norm(rv.Interface()))
		}
	}
	for i, r := range k.Rets {
		v := T[r].vals[k.vi(i+1)]
		rv := reflect.New(T[r].rt).Elem()
		if v != nil {
			rv.Set(reflect.ValueOf(v))
		}
		resVals = append(resVals, rv)
		resLits = append(resLits, T[r].lits[k.vi(i+1)])
		wantRes = append(wantRes, norm(rv.Interface()))
	}
	add := func(dir, pos, what, src string) {
		fails = append(fails, fail{K: k, Dir: dir, What: what, Key: dir + " | " + pos, Src: src})
	}
	posKey := func(kind string, idx int, list []int) string {
		z := "nonzero"
		if (kind == "param" && k.vi(idx) == 0) || (kind == "result" && k.vi(idx+1) == 0) {
			z = "zero"
		}
		v := ""
		if kind == "param" && k.Var && idx == len(list)-1 {
			v = "variadic "
		}
		return fmt.Sprintf("%s %s%s (%s value)", kind, v, T[list[idx]].name, z)
	}
	firstDiff := func(got, want []string) int {
		for i := range want {
			if i >= len(got) || got[i] != want[i] {
				return i
			}
		}
		return -1
	}

	// ---- direction A: the script calls a host function of this signature
	var seen, got []string
	hostFn := reflect.MakeFunc(ftype, func(in []reflect.Value) []reflect.Value {
		seen = nil
		for _, a := range in {
			seen = append(seen, norm(a.Interface()))
		}
		return resVals
	})
	gotFn := reflect.ValueOf(func(a ...interface{}) {
		got = nil
		for _, x := range a {
			got = append(got, norm(x))
		}
	})
	var decl, call strings.Builder
	var names []string
	for i, p := range k.Params {
		fmt.Fprintf(&decl, "\tvar a%d %s = %s\n", i, T[p].name, argLits[i])
		names = append(names, fmt.Sprintf("a%d", i))
	}
	args := strings.Join(names, ", ")
	if k.Var {
		args += ", " + names[np-1] // two values for the variadic tail
	}
	var rn []string
	for i := range k.Rets {
		rn = append(rn, fmt.Sprintf("r%d", i))
	}
	if nr > 0 {
		fmt.Fprintf(&call, "\t%s := h.H(%s)\n\th.Got(%s)\n", strings.Join(rn, ", "), args, strings.Join(rn, ", "))
	} else {
		fmt.Fprintf(&call, "\th.H(%s)\n\th.Got()\n", args)
	}
	// the same-signature script function: records what it receives through the host recorder, returns literals
	var fparams, frec []string
	for i, p := range k.Params {
		n := T[p].name
		if k.Var && i == np-1 {
			n = "..." + n
		}
		fparams = append(fparams, fmt.Sprintf("p%d %s", i, n))
		frec = append(frec, fmt.Sprintf("p%d", i))
	}
	var frets []string
	for _, r := range k.Rets {
		frets = append(frets, T[r].name)
	}
	fdecl := fmt.Sprintf("func F(%s) (%s) {\n\th.Rec(%s)\n\treturn %s\n}\n", strings.Join(fparams, ", "), strings.Join(frets, ", "), strings.Join(frec, ", "), strings.Join(resLits, ", "))
	if nr == 0 {
		fdecl = fmt.Sprintf("func F(%s) {\n\th.Rec(%s)\n}\n", strings.Join(fparams, ", "), strings.Join(frec, ", "))
	}
	// inside-the-script call of F (reference for the native call)
	var inside strings.Builder
	if nr > 0 {
		fmt.Fprintf(&inside, "func Inside() {\n%s\t%s := F(%s)\n\th.Got(%s)\n}\n", decl.String(), strings.Join(rn, ", "), args, strings.Join(rn, ", "))
	} else {
		fmt.Fprintf(&inside, "func Inside() {\n%s\tF(%s)\n\th.Got()\n}\n", decl.String(), args)
	}
	src := "package main\n\nimport \"h\"\n\n" + fdecl + "\n" + inside.String() + "\nfunc Main() {\n" + decl.String() + call.String() + "}\n"
	var out bytes.Buffer
	var rec []string
	recFn := reflect.ValueOf(func(a ...interface{}) {
		rec = nil
		for _, x := range a {
			rec = append(rec, norm(x))
		}
	})
	i := newInterp(&out, map[string]reflect.Value{"H": hostFn, "Got": gotFn, "Rec": recFn}, false)
	err := guard(func() error {
		if _, e := i.Eval(src); e != nil {
			return e
		}
		_, e := i.Eval("Main()")
		return e
	})
	par.Count("calls", 1)
	switch {
	case err != nil:
		add("script->host", "eval error: "+classify(err), k.desc()+": "+first(err.Error()), src)
		return fails
	default:
		if d := firstDiff(seen, wantArgs); d >= 0 || len(seen) != len(wantArgs) {
			if d < 0 {
				d = 0
			}
			add("script->host", "host saw wrong argument: "+posKey("param", d, k.Params), fmt.Sprintf("%s: host saw %v, script passed %v", k.desc(), seen, wantArgs), src)
		}
		if d := firstDiff(got, wantRes); d >= 0 || len(got) != len(wantRes) {
			if d < 0 {
				d = 0
			}
			add("script->host", "script got wrong result: "+posKey("result", d, k.Rets), fmt.Sprintf("%s: script got %v, host returned %v", k.desc(), got, wantRes), src)
		}
	}
	// ---- direction B: the host calls the script function F natively; reference = the same call inside the script
	par.Count("calls", 1)
	err = guard(func() error {
		fv, e := i.Eval("F")
		if e != nil {
			return e
		}
		if fv.Type() != ftype {
			add("host->script", "exported function has the wrong Go type", fmt.Sprintf("%s: Eval(\"F\") has type %s, want %s", k.desc(), fv.Type(), ftype), src)
			return nil
		}
		in := append([]reflect.Value{}, argVals...)
		if k.Var {
			in = append(in, argVals[np-1])
		}
		rec = nil
		res := fv.Call(in)
		var gotNative []string
		for _, r := range res {
			gotNative = append(gotNative, norm(r.Interface()))
		}
		recNative := rec
		// the same call inside the script
		rec, got = nil, nil
		if _, e := i.Eval("Inside()"); e != nil {
			return fmt.Errorf("inside call: %v", e)
		}
		if d := firstDiff(recNative, rec); d >= 0 || len(recNative) != len(rec) {
			if d < 0 {
				d = 0
			}
			add("host->script", "script function received other arguments than in the script-internal call: "+posKey("param", d, k.Params), fmt.Sprintf("%s: native call delivered %v, script-internal call %v", k.desc(), recNative, rec), src)
		}
		if d := firstDiff(gotNative, got); d >= 0 || len(gotNative) != len(got) {
			if d < 0 {
				d = 0
			}
			add("host->script", "native call returned other results than the script-internal call: "+posKey("result", d, k.Rets), fmt.Sprintf("%s: native call returned %v, script-internal call %v", k.desc(), gotNative, got), src)
		}
		if d := firstDiff(rec, wantArgs); d >= 0 {
			add("host->script", "script-internal call of F received wrong arguments: "+posKey("param", d, k.Params), fmt.Sprintf("%s: F saw %v want %v", k.desc(), rec, wantArgs), src)
		}
		return nil
	})
	if err != nil {
		add("host->script", "error: "+classify(err), k.desc()+": "+first(err.Error()), src)
	}
	return fails
}

func classify(err error) string {
	s := first(err.Error())
	if i := strings.LastIndex(s, ": "); i >= 0 && strings.Count(s[:i], ":") >= 2 {
		s = s[strings.Index(s, ": ")+2:]
	}
	for _, t := range T {
		s = strings.ReplaceAll(s, t.name, "T")
	}
	if len(s) > 80 {
		s = s[:80]
	}
	return s
}

func first(s string) string {
	if i := strings.IndexByte(s, '\n'); i >= 0 {
		s = s[:i]
	}
	return s
}

// ---- special cases: mutation through references, callbacks crossing twice, interpreted types as host interfaces, variables ----

type special struct {
	name    string
	src     string
	exports func(log *[]string) map[string]reflect.Value
	after   func(i *interp.Interpreter, log *[]string) error
	want    []string
	std     bool
}

var hostVar = 5

var sumFn func(int) int

var again func(int) int

func specials() []special {
	logf := func(log *[]string) reflect.Value {
		return reflect.ValueOf(func(a ...interface{}) { *log = append(*log, strings.TrimSpace(fmt.Sprintln(a...))) })
	}
	return []special{
		{name: "host mutates through pointer, slice and map", src: "package main\n\nimport \"h\"\n\nfunc Main() {\n\tp := &h.S{A: 1}\n\ts := []int{1, 2}\n\tm := map[string]int{\"a\": 1}\n\tarr := [2]int{1, 2}\n\th.Mut(p, s, m, arr)\n\th.Log(p.A, s[0], m[\"z\"], len(m), arr[0])\n}\n",
			exports: func(log *[]string) map[string]reflect.Value {
				return map[string]reflect.Value{"Log": logf(log), "Mut": reflect.ValueOf(func(p *S, s []int, m map[string]int, a [2]int) { p.A = 9; s[0] = 9; m["z"] = 9; a[0] = 9 })}
			}, want: []string{"9 9 9 2 1"}},
		{name: "script mutates host data through pointer, slice and map", src: "package main\n\nimport \"h\"\n\nfunc M(p *h.S, s []int, m map[string]int, a [2]int) {\n\tp.A = 7\n\ts[0] = 7\n\tm[\"z\"] = 7\n\ta[0] = 7\n}\n",
			exports: func(log *[]string) map[string]reflect.Value { return map[string]reflect.Value{"Log": logf(log)} },
			after: func(i *interp.Interpreter, log *[]string) error {
				fv, err := i.Eval("M")
				if err != nil {
					return err
				}
				p, s, m, a := &S{A: 1}, []int{1, 2}, map[string]int{"a": 1}, [2]int{1, 2}
				fv.Interface().(func(*S, []int, map[string]int, [2]int))(p, s, m, a)
				*log = append(*log, fmt.Sprint(p.A, s[0], m["z"], len(m), a[0]))
				return nil
			}, want: []string{"7 7 7 2 1"}},
		{name: "script closure passed to host callback (captures and mutates script state)", src: "package main\n\nimport \"h\"\n\nfunc Main() {\n\tn := 10\n\tr := h.Apply(func(x int) int { n++; return x + n }, 1)\n\th.Log(r, n)\n\tr = h.Apply(func(x int) int { n++; return x + n }, 1)\n\th.Log(r, n)\n}\n",
			exports: func(log *[]string) map[string]reflect.Value {
				return map[string]reflect.Value{"Log": logf(log), "Apply": reflect.ValueOf(func(f func(int) int, v int) int { return f(f(v)) })}
			}, want: []string{"24 12", "28 14"}},
		{name: "host function passed to script function called natively", src: "package main\n\nfunc Twice(f func(int) int, v int) int { return f(f(v)) }\n",
			exports: func(log *[]string) map[string]reflect.Value { return map[string]reflect.Value{"Log": logf(log)} },
			after: func(i *interp.Interpreter, log *[]string) error {
				fv, err := i.Eval("Twice")
				if err != nil {
					return err
				}
				*log = append(*log, fmt.Sprint(fv.Interface().(func(func(int) int, int) int)(func(x int) int { return x * 3 }, 2)))
				return nil
			}, want: []string{"18"}},
		{name: "script function crossing the boundary twice (host passes a script function back to a script function)", src: "package main\n\nfunc Twice(f func(int) int, v int) int { return f(f(v)) }\n\nvar k = 4\n\nfunc AddK(x int) int { k++; return x + k }\n",
			exports: func(log *[]string) map[string]reflect.Value { return map[string]reflect.Value{"Log": logf(log)} },
			after: func(i *interp.Interpreter, log *[]string) error {
				tw, err := i.Eval("Twice")
				if err != nil {
					return err
				}
				ak, err := i.Eval("AddK")
				if err != nil {
					return err
				}
				r := tw.Call([]reflect.Value{ak, reflect.ValueOf(1)})
				kv, err := i.Eval("k")
				if err != nil {
					return err
				}
				*log = append(*log, fmt.Sprint(r[0].Interface(), kv.Interface()))
				return nil
			}, want: []string{"12 6"}},
		{name: "script function returned to the host as a result and called later", src: "package main\n\nfunc Mk(base int) func(int) int {\n\tc := base\n\treturn func(x int) int { c += x; return c }\n}\n",
			exports: func(log *[]string) map[string]reflect.Value { return map[string]reflect.Value{"Log": logf(log)} },
			after: func(i *interp.Interpreter, log *[]string) error {
				mk, err := i.Eval("Mk")
				if err != nil {
					return err
				}
				f := mk.Interface().(func(int) func(int) int)(100)
				g := mk.Interface().(func(int) func(int) int)(0)
				*log = append(*log, fmt.Sprint(f(1), f(2), g(5), f(3)))
				return nil
			}, want: []string{"101 103 5 106"}},
		{name: "interpreted type passed as fmt.Stringer and error to host functions", std: true, src: "package main\n\nimport (\n\t\"fmt\"\n\n\t\"h\"\n)\n\ntype St struct{ n int }\n\nfunc (s St) String() string { return fmt.Sprint(\"St#\", s.n) }\n\ntype Er struct{ n int }\n\nfunc (e *Er) Error() string { return fmt.Sprint(\"Er#\", e.n) }\n\nfunc Fail() error { return &Er{2} }\n\nfunc Main() {\n\th.Log(h.Desc(St{1}))\n\th.Log(h.Msg(&Er{3}))\n}\n",
			exports: func(log *[]string) map[string]reflect.Value {
				return map[string]reflect.Value{"Log": logf(log), "Desc": reflect.ValueOf(func(s fmt.Stringer) string { return "<" + s.String() + ">" }), "Msg": reflect.ValueOf(func(e error) string { return "<" + e.Error() + ">" })}
			},
			after: func(i *interp.Interpreter, log *[]string) error {
				fv, err := i.Eval("Fail")
				if err != nil {
					return err
				}
				e := fv.Interface().(func() error)()
				*log = append(*log, fmt.Sprint(e != nil, e))
				return nil
			}, want: []string{"<St#1>", "<Er#3>", "true Er#2"}},
		{name: "host variable shared through Use, script globals through Eval", src: "package main\n\nimport \"h\"\n\nvar G = 1\n\nfunc Bump() int { G++; h.V += 10; return G }\n\nfunc Main() {\n\th.V++\n\th.Log(h.V)\n}\n",
			exports: func(log *[]string) map[string]reflect.Value {
				hostVar = 5
				return map[string]reflect.Value{"Log": logf(log), "V": reflect.ValueOf(&hostVar).Elem()}
			},
			after: func(i *interp.Interpreter, log *[]string) error {
				*log = append(*log, fmt.Sprint("host sees ", hostVar))
				hostVar = 50
				b, err := i.Eval("Bump")
				if err != nil {
					return err
				}
				r := b.Interface().(func() int)()
				g, err := i.Eval("G")
				if err != nil {
					return err
				}
				*log = append(*log, fmt.Sprint(r, g.Interface(), hostVar))
				return nil
			}, want: []string{"6", "host sees 6", "2 2 60"}},
		{name: "exported script function re-entered through a host callback (nested activations of one wrapper)", src: "package main\n\nimport \"h\"\n\nfunc Sum(n int) int {\n\tlocal := n * 100\n\tif n == 0 {\n\t\treturn 0\n\t}\n\tr := n + h.Again(n-1)\n\th.Log(\"frame\", n, local)\n\treturn r\n}\n",
			exports: func(log *[]string) map[string]reflect.Value {
				again = func(k int) int { return sumFn(k) }
				return map[string]reflect.Value{"Log": logf(log), "Again": reflect.ValueOf(func(k int) int { return again(k) })}
			},
			after: func(i *interp.Interpreter, log *[]string) error {
				fv, err := i.Eval("Sum")
				if err != nil {
					return err
				}
				sumFn = fv.Interface().(func(int) int)
				*log = append(*log, fmt.Sprint(sumFn(4)))
				return nil
			}, want: []string{"frame 1 100", "frame 2 200", "frame 3 300", "frame 4 400", "10"}},
		{name: "script callback stored by the host and re-entered from a host function it calls", src: "package main\n\nimport \"h\"\n\nfunc Visit(s string) string {\n\tmine := s\n\tif len(s) < 3 {\n\t\th.Fire(s + \"x\")\n\t}\n\treturn mine\n}\n\nfunc Main() {\n\th.Register(Visit)\n\th.Fire(\"a\")\n}\n",
			exports: func(log *[]string) map[string]reflect.Value {
				var cb func(string) string
				return map[string]reflect.Value{"Log": logf(log), "Register": reflect.ValueOf(func(f func(string) string) { cb = f }),
					"Fire": reflect.ValueOf(func(s string) { r := cb(s); *log = append(*log, r) })}
			}, want: []string{"axx", "ax", "a"}},
		{name: "two host goroutines inside the same exported function at the same time", src: "package main\n\nimport \"h\"\n\nfunc Slow(id int) int {\n\tmine := id * 7\n\th.Barrier()\n\treturn mine + id\n}\n",
			exports: func(log *[]string) map[string]reflect.Value {
				var mu sync.Mutex
				n := 0
				both := make(chan struct{})
				return map[string]reflect.Value{"Log": logf(log), "Barrier": reflect.ValueOf(func() {
					mu.Lock()
					n++
					if n == 2 {
						close(both)
					}
					mu.Unlock()
					select {
					case <-both:
					case <-time.After(5 * time.Second):
					}
				})}
			},
			after: func(i *interp.Interpreter, log *[]string) error {
				fv, err := i.Eval("Slow")
				if err != nil {
					return err
				}
				f := fv.Interface().(func(int) int)
				res := make([]int, 2)
				var wg sync.WaitGroup
				for k := 0; k < 2; k++ {
					wg.Add(1)
					go func(k int) { defer wg.Done(); res[k] = f(k + 1) }(k)
				}
				wg.Wait()
				*log = append(*log, fmt.Sprint(res))
				return nil
			}, want: []string{"[8 16]"}},
		{name: "multiple and error results from host and script", src: "package main\n\nimport \"h\"\n\nfunc Div(a, b int) (int, error) {\n\tif b == 0 {\n\t\treturn 0, h.ErrX\n\t}\n\treturn a / b, nil\n}\n\nfunc Main() {\n\tq, err := h.HDiv(7, 2)\n\th.Log(q, err == nil)\n\tq, err = h.HDiv(1, 0)\n\th.Log(q, err == h.ErrX)\n}\n",
			exports: func(log *[]string) map[string]reflect.Value {
				return map[string]reflect.Value{"Log": logf(log), "HDiv": reflect.ValueOf(func(a, b int) (int, error) {
					if b == 0 {
						return 0, errX
					}
					return a / b, nil
				})}
			},
			after: func(i *interp.Interpreter, log *[]string) error {
				d, err := i.Eval("Div")
				if err != nil {
					return err
				}
				f := d.Interface().(func(int, int) (int, error))
				q, e := f(9, 3)
				q2, e2 := f(1, 0)
				*log = append(*log, fmt.Sprint(q, e == nil, q2, e2 == errX))
				return nil
			}, want: []string{"3 true", "0 true", "3 true 0 true"}},
	}
}

func specialCase(k kase) []fail {
	for _, sp := range specials() {
		if sp.name != k.Name {
			continue
		}
		var log []string
		var out bytes.Buffer
		i := newInterp(&out, sp.exports(&log), sp.std)
		par.Count("calls", 1)
		err := guard(func() error {
			if _, e := i.Eval(sp.src); e != nil {
				return e
			}
			if strings.Contains(sp.src, "func Main()") {
				if _, e := i.Eval("Main()"); e != nil {
					return e
				}
			}
			if sp.after != nil {
				return sp.after(i, &log)
			}
			return nil
		})
		if err != nil {
			return []fail{{K: k, Dir: "special", What: sp.name + ": " + first(err.Error()), Key: "special | " + sp.name, Src: sp.src}}
		}
		if strings.Join(log, "|") != strings.Join(sp.want, "|") {
			return []fail{{K: k, Dir: "special", What: fmt.Sprintf("%s: observed %q want %q", sp.name, log, sp.want), Key: "special | " + sp.name, Src: sp.src}}
		}
	}
	return nil
}

func cases(thorough bool) []kase {
	var ks []kase
	var paramSets [][]int
	paramSets = append(paramSets, nil)
	for a := range T {
		paramSets = append(paramSets, []int{a})
		for b := range T {
			paramSets = append(paramSets, []int{a, b})
		}
	}
	var retSets [][]int
	retSets = append(retSets, nil)
	for a := range T {
		retSets = append(retSets, []int{a})
	}
	if thorough {
		for a := range T {
			for b := range T {
				retSets = append(retSets, []int{a, b})
			}
		}
	} else {
		// quick: two results on a diagonal (T, error) and (T, T)
		for a := range T {
			retSets = append(retSets, []int{a, 16}, []int{a, a})
		}
	}
	for _, ps := range paramSets {
		for _, rs := range retSets {
			if !thorough && len(ps) == 2 && len(rs) == 2 && ps[0] != ps[1] {
				continue
			}
			for v := 0; v < 3; v++ {
				if v == 2 && len(ps)+len(rs) < 2 {
					continue
				}
				ks = append(ks, kase{Kind: "sig", Params: ps, Rets: rs, Vals: v})
			}
		}
	}
	// variadic variants: (T...) and (U, T...) with one result
	for a := range T {
		for _, rs := range [][]int{nil, {0}} {
			for v := 0; v < 2; v++ {
				ks = append(ks, kase{Kind: "sig", Params: []int{a}, Rets: rs, Vals: v, Var: true})
				for _, u := range []int{0, 7, 9} {
					ks = append(ks, kase{Kind: "sig", Params: []int{u, a}, Rets: rs, Vals: v, Var: true})
				}
			}
		}
	}
	// arity 3-4 / 3 results over class representatives
	reps := []int{0, 7, 9, 10, 13, 16}
	for _, a := range reps {
		for _, b := range reps {
			for _, c := range reps {
				ks = append(ks, kase{Kind: "sig", Params: []int{a, b, c}, Rets: []int{c, a, 16}, Vals: 1})
				ks = append(ks, kase{Kind: "sig", Params: []int{a, b, c, a}, Rets: []int{b}, Vals: 2})
			}
		}
	}
	for _, sp := range specials() {
		ks = append(ks, kase{Kind: "special", Name: sp.name})
	}
	return ks
}

func main() {
	r := report.Start("C07", "exploration")
	ks := cases(true) // quick tier promoted to the full signature product (round d)
	run := func(k kase) []fail {
		if k.Kind == "special" {
			return specialCase(k)
		}
		return sigCase(k)
	}
	topt := twin.Options{Use: []interp.Exports{stdlib.Symbols}}
	if r.Replay != "" {
		if b, err := os.ReadFile(r.Replay); err == nil && (strings.Contains(string(b), "\"key\": \"F type=") || strings.Contains(string(b), "\"key\": \"G call=")) {
			twin.Replay(r, topt) // a failure of the argument-form family (E2 twins)
		}
		var cs []fail
		if err := report.ReadReplay(r.Replay, &cs); err != nil {
			fmt.Fprintln(os.Stderr, "HARNESS-ERROR:", err)
			os.Exit(3)
		}
		bad := 0
		for _, c := range cs {
			fs := run(c.K)
			still := false
			for _, f := range fs {
				if f.Key == c.Key {
					still = true
					fmt.Printf("replay %s: %s\n--- script ---\n%s\n", c.K.desc(), f.What, f.Src)
				}
			}
			if still {
				bad++
			} else {
				fmt.Println("replay: holds now:", c.K.desc())
			}
		}
		if bad > 0 {
			fmt.Printf("VIOLATION property=C07 replay=%s\n", r.Replay)
			os.Exit(1)
		}
		os.Exit(0)
	}
	// argument-form family: generated twins, native vs interpreted
	twin.RunAll(r, nil, func(c twin.Case, n, i twin.Obs) string { return c.Name }, topt, par.Opts{})
	res := par.Map(len(ks), func(i int) *[]fail {
		par.Count("signatures", 1)
		par.Distinct("shapes", fmt.Sprint(ks[i].Params, ks[i].Rets, ks[i].Var, ks[i].Name))
		f := run(ks[i])
		if len(f) == 0 {
			return nil
		}
		return &f
	}, par.Opts{Name: "sig"})
	for _, fs := range res.Outs {
		for _, f := range fs {
			r.Fail(report.Failure{Key: f.Key, What: f.What, Case: f})
		}
	}
	for _, a := range res.Abnormal {
		r.Fail(report.Failure{Key: ks[a.Idx].desc() + " | " + a.Kind, What: ks[a.Idx].desc() + ": interpreter " + a.Kind, Case: fail{K: ks[a.Idx], What: a.Kind}})
	}
	r.Add("evaluations", res.Counts["calls"])
	r.Set("signature_value_cases", res.Counts["signatures"])
	r.Add("distinct_nontrivial", int64(len(res.Sets["shapes"])))
	r.Set("type_alphabet", len(T))
	r.Set("exhaustive", len(res.Abnormal) == 0)
	r.Set("rule", "all signatures with <= 2 parameters over a 20-type alphabet (8 basic kinds, host structs incl. embedded/pointer/slice fields, pointer, array, slices, map, error, interface{}, two function types) x {0, 1 result; 2 results on the (T,error)/(T,T) diagonals - thorough: all pairs} x 3 value patterns (zero values, non-zero, alternating); variadic variants; arity 3-4 / 3 results over 6 class representatives; both directions with recorders on both sides; argument-form family F (E2 twins): 13 value types x 22 ways of writing the argument of a host call (variable, literal, call, multi-result forwarding, field, element, method / closure result, assertion, dereference, receive, and the same with the static type of a script-defined interface) x typed host parameters (int, string, []int, error, func, *int, interface{}, ...interface{}, (interface{}, int)) x 4 statement forms; family G (E2 twins): bool-returning variadic host functions x 14 ways of writing the variadic values (listed, spread of a variable / literal / call result / nil / empty slice, a slice passed as one value) x 11 positions of the call (if / for conditions, negation, && and || operands, switch case, assignment, return, argument, defer); 12 special scenarios (mutation through references, callbacks crossing twice, re-entrant and concurrent activations of one exported wrapper, returned closures, interpreted types as fmt.Stringer/error, shared variables); distinct_nontrivial = distinct signature shapes; family R (E2 twins): how the results of a host call are stored: 5 host functions (1-3 results, error / struct results) x 17 destination forms (define, assign, redeclare, blanks, dereference, field / element / map) x what else refers to the destination (pointer taken before, reading / writing closure, per-iteration closures) x local / package-level variables")
	r.Assumptions = []string{"values are compared through an address-free rendering; function values by their behaviour on a fixed argument", "host functions of arbitrary signature are built with reflect.FuncOf/MakeFunc"}
	for _, i := range []int{5, len(ks) / 2, len(ks) - 1} {
		r.Sample(ks[i].desc())
	}
	r.Finish()
}
