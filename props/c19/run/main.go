// C19: running under the debugger does not change behaviour. For every program of a sequential corpus
// (one marker Show(line) per breakable line: the output is the ground truth of executed lines), every
// breakpoint set of the family and every sequence of resume requests with a bounded number of deviations
// from "continue" is explored (deviation-bounded DFS over the resume protocol of the real debugger); each
// session is compared with plain execution and its event trace is checked against the markers.
package main

import (
	"bytes"
	"context"
	"errors"
	"fmt"
	"os"
	"reflect"
	"regexp"
	"strconv"
	"strings"
	"sync"
	"time"

	"github.com/traefik/yaegi/interp"
	"verif/engine/par"
	"verif/engine/report"
	"verif/engine/twin/h"
)

// corpus: '@' is replaced by the line number of its line.
var corpus = map[string]string{
	"branch": `package main

import . "verif/engine/twin/h"

func main() {
	Show(@); x := 3
	if x > 2 {
		Show(@); x++
	} else {
		Show(@); x--
	}
	if x > 10 {
		Show(@); x = 0
	} else if x > 3 {
		Show(@); x += 10
	} else {
		Show(@); x += 20
	}
	Show(@, x)
}
`,
	"branch-both-ways": `package main

import . "verif/engine/twin/h"

func pick(x int) int {
	if x > 2 {
		Show(@); x++
	} else {
		Show(@); x--
	}
	if x%2 == 0 {
		Show(@); return x
	}
	Show(@); return -x
}

func main() {
	for _, v := range []int{5, 1, 2} {
		Show(@, pick(v))
	}
}
`,
	"typeswitch": `package main

import . "verif/engine/twin/h"

type Sh interface{ Area() int }

type Sq struct{ s int }

func (q Sq) Area() int {
	Show(@); return q.s * q.s
}

type Re struct{ w, h int }

func (r *Re) Area() int {
	Show(@); return r.w * r.h
}

func describe(v interface{}) int {
	switch x := v.(type) {
	case int:
		Show(@); return x
	case Sh:
		Show(@); return x.Area()
	case nil:
		Show(@); return -1
	default:
		Show(@); return -2
	}
}

func main() {
	vals := []interface{}{3, Sq{2}, &Re{2, 3}, nil, "s"}
	t := 0
	for _, v := range vals {
		Show(@); t += describe(v)
	}
	Show(@, t)
}
`,
	"labels-goto": `package main

import . "verif/engine/twin/h"

func main() {
	Show(@); n := 0
outer:
	for i := 0; i < 3; i++ {
		for j := 0; j < 3; j++ {
			if j == 2 {
				Show(@); continue outer
			}
			if i == 2 {
				Show(@); break outer
			}
			Show(@); n += i*10 + j
		}
	}
	k := 0
again:
	if k < 2 {
		Show(@); k++
		goto again
	}
	Show(@, n, k)
}
`,
	"nested-closures-defers": `package main

import . "verif/engine/twin/h"

func outer(n int) (res int) {
	defer func() {
		Show(@); res *= 2
	}()
	acc := func(d int) func() int {
		return func() int {
			Show(@); n += d
			Show(@); return n
		}
	}
	a, b := acc(1), acc(10)
	for i := 0; i < 2; i++ {
		defer func(k int) {
			Show(@, k); res += k
		}(i)
		Show(@); res += a() + b()
	}
	Show(@); return res
}

func main() {
	Show(@, outer(1))
}
`,
	"multi-return-variadic": `package main

import . "verif/engine/twin/h"

func divmod(a, b int) (q, r int, ok bool) {
	if b == 0 {
		Show(@); return 0, 0, false
	}
	Show(@); q, r = a/b, a%b
	Show(@); return q, r, true
}

func sum(xs ...int) int {
	Show(@); t := 0
	for _, x := range xs {
		Show(@); t += x
	}
	Show(@); return t
}

func main() {
	Show(@); q, r, ok := divmod(7, 2)
	Show(@); _, _, ok2 := divmod(1, 0)
	Show(@); s := sum(q, r)
	Show(@); s2 := sum([]int{1, 2, 3}...)
	Show(@, q, r, ok, ok2, s, s2, sum())
}
`,
	"embedding": `package main

import . "verif/engine/twin/h"

type A struct{ n int }

func (a *A) Inc() {
	Show(@); a.n++
}

func (a A) Val() int {
	Show(@); return a.n
}

type B struct {
	A
	m int
}

func (b B) Val() int {
	Show(@); return b.A.Val() + b.m
}

func main() {
	Show(@); b := B{A{1}, 10}
	Show(@); b.Inc()
	Show(@); v := b.Val()
	Show(@); w := b.A.Val()
	Show(@, v, w)
}
`,
	"select-default": `package main

import . "verif/engine/twin/h"

func main() {
	Show(@); c := make(chan int, 2)
	Show(@); c <- 1
	for i := 0; i < 3; i++ {
		select {
		case v := <-c:
			Show(@, v)
		default:
			Show(@); c <- i * 10
		}
	}
	Show(@, len(c))
}
`,
	"loop": `package main

import . "verif/engine/twin/h"

func main() {
	Show(@); s := 0
	for i := 0; i < 3; i++ {
		Show(@); s += i
		if i == 1 {
			Show(@); continue
		}
		Show(@); s *= 2
	}
	for _, v := range []int{4, 5} {
		Show(@); s += v
	}
	Show(@, s)
}
`,
	"pkgvars": `package main

import . "verif/engine/twin/h"

var a = twice(b) + 1

var b = c * 2

var c = 5

var names = []string{"x", "y"}

var idx = map[string]int{names[0]: a, names[1]: b}

func twice(x int) int {
	Show(@); return x * 2
}

func init() {
	Show(@, a, b, c); c++
}

func main() {
	Show(@); t := a + b + c
	Show(@, t, idx["x"], idx["y"])
}
`,
	"generic": `package main

import . "verif/engine/twin/h"

type Num interface{ ~int | ~float64 }

func Sum[T Num](xs []T) T {
	Show(@); var s T
	for _, x := range xs {
		Show(@); s += x
	}
	Show(@); return s
}

func Pair[T any](a, b T) []T {
	Show(@); out := []T{a}
	Show(@); out = append(out, b)
	Show(@); return out
}

func main() {
	Show(@, Sum([]int{1, 2, 3}))
	Show(@, Sum([]float64{1.5, 2}))
	Show(@); ys := Pair("a", "b")
	Show(@, ys, Pair(1, 2))
}
`,
	"qualified-types": `package main

import (
	"sync"

	. "verif/engine/twin/h"
)

type Counter struct {
	mu sync.Mutex
	n  int
}

func (c *Counter) Add(d int) {
	Show(@); c.mu.Lock()
	Show(@); c.n += d
	Show(@); c.mu.Unlock()
}

func total(m *sync.Mutex, c *Counter) int {
	Show(@); m.Lock()
	defer m.Unlock()
	Show(@); return c.n
}

func main() {
	Show(@); c := &Counter{}
	Show(@); c.Add(2)
	Show(@); c.Add(3)
	var m sync.Mutex
	Show(@, total(&m, c))
}
`,
	"calls": `package main

import . "verif/engine/twin/h"

func add(a, b int) int {
	Show(@); r := a + b
	Show(@); return r
}

func twice(x int) int {
	Show(@); y := add(x, x)
	Show(@); return add(y, 1)
}

func main() {
	Show(@); a := twice(2)
	Show(@); b := add(a, 3)
	Show(@, a, b)
}
`,
	"recursion": `package main

import . "verif/engine/twin/h"

func fact(n int) int {
	if n <= 1 {
		Show(@); return 1
	}
	Show(@); r := n * fact(n-1)
	Show(@); return r
}

func main() {
	Show(@); v := fact(3)
	Show(@, v)
}
`,
	"closure": `package main

import . "verif/engine/twin/h"

func mk() func() int {
	Show(@); c := 0
	return func() int {
		Show(@); c++
		Show(@); return c
	}
}

func main() {
	Show(@); f := mk()
	Show(@); a := f()
	Show(@); b := f()
	g := func(x int) int {
		Show(@); return x * a
	}
	Show(@, g(b))
}
`,
	"defer": `package main

import . "verif/engine/twin/h"

func work() (res int) {
	defer func() {
		Show(@); res += 100
	}()
	defer func() {
		Show(@); res *= 2
	}()
	Show(@); res = 1
	Show(@); return res + 1
}

func main() {
	Show(@); v := work()
	Show(@, v)
}
`,
	"panic-recover": `package main

import . "verif/engine/twin/h"

func risky(n int) int {
	Show(@); a := []int{1, 2}
	Show(@); return a[n]
}

func safe(n int) (r int) {
	defer func() {
		if e := recover(); e != nil {
			Show(@); r = -1
		}
	}()
	Show(@); r = risky(n)
	Show(@); return r
}

func main() {
	Show(@); x := safe(1)
	Show(@); y := safe(5)
	Show(@, x, y)
}
`,
	"panic-uncaught": `package main

import . "verif/engine/twin/h"

func boom(n int) int {
	if n == 0 {
		Show(@); panic("boom")
	}
	Show(@); return boom(n - 1)
}

func main() {
	defer func() {
		Show(@)
	}()
	Show(@); v := boom(2)
	Show(@, v)
}
`,
	"switch": `package main

import . "verif/engine/twin/h"

func kind(n int) string {
	switch {
	case n < 0:
		Show(@); return "neg"
	case n == 0:
		Show(@); return "zero"
	}
	switch n % 3 {
	case 0:
		Show(@); return "three"
	case 1:
		Show(@)
		fallthrough
	default:
		Show(@); return "other"
	}
}

func main() {
	for _, n := range []int{-1, 0, 3, 4, 5} {
		Show(@, kind(n))
	}
}
`,
	"methods": `package main

import . "verif/engine/twin/h"

type C struct{ n int }

func (c *C) Inc() int {
	Show(@); c.n++
	Show(@); return c.n
}

func (c C) Get() int {
	Show(@); return c.n
}

type G interface{ Get() int }

func main() {
	Show(@); c := &C{}
	Show(@); c.Inc()
	Show(@); var g G = c
	Show(@, g.Get(), c.Inc())
}
`,
}

type program struct {
	Name  string
	Src   string
	Lines []int    // marker lines
	Funcs []string // function names
}

// syncExports: the one compiled package (besides h) a corpus program refers to, for package-qualified types in declarations.
var syncExports = interp.Exports{"sync/sync": {"Mutex": reflect.ValueOf((*sync.Mutex)(nil)), "WaitGroup": reflect.ValueOf((*sync.WaitGroup)(nil))}}

var trailRe = regexp.MustCompile(`^(\s*)Show\(@([^;]*)\); (.+)$`)
var jumpRe = regexp.MustCompile(`^(return|continue|break|goto|panic|fallthrough|defer|go |if |for |switch |select )`)

var funcRe = regexp.MustCompile(`(?m)^func (?:\([^)]*\) )?([A-Za-z_][A-Za-z0-9_]*)\(`)

func load(thorough bool) []program {
	var ps []program
	names := []string{"branch", "branch-both-ways", "typeswitch", "labels-goto", "nested-closures-defers", "multi-return-variadic", "embedding", "select-default", "loop", "calls", "recursion", "closure", "defer", "panic-recover", "panic-uncaught", "switch", "methods"}
	names = append(names, "pkgvars", "generic", "qualified-types")
	// every program also in a second form with the marker AFTER the statement of its line (so that the statement a line
	// breakpoint stops on is an assignment, an increment, a send ... and not always a call)
	for _, n := range append([]string{}, names...) {
		var out []string
		for _, l := range strings.Split(corpus[n], "\n") {
			// only statements without calls move: a callee's markers would print between the break and the line's own marker
			if m := trailRe.FindStringSubmatch(l); m != nil && !jumpRe.MatchString(m[3]) && !strings.Contains(m[3], "(") {
				l = m[1] + m[3] + "; Show(@" + m[2] + ")"
			}
			out = append(out, l)
		}
		corpus[n+"~trailing-markers"] = strings.Join(out, "\n")
		names = append(names, n+"~trailing-markers")
	}
	for _, n := range names {
		lines := strings.Split(corpus[n], "\n")
		var marks []int
		for i, l := range lines {
			if strings.Contains(l, "@") {
				lines[i] = strings.ReplaceAll(l, "@", strconv.Itoa(i+1))
				marks = append(marks, i+1)
			}
		}
		p := program{Name: n, Src: strings.Join(lines, "\n"), Lines: marks}
		for _, m := range funcRe.FindAllStringSubmatch(p.Src, -1) {
			p.Funcs = append(p.Funcs, m[1])
		}
		ps = append(ps, p)
	}
	return ps
}

// ---- one debugging session ----

type ev struct {
	Reason string `json:"reason"`
	Line   int    `json:"line"`
	OutLen int    `json:"outlen"`
}

type session struct {
	Prog       string   `json:"program"`
	BPLines    []int    `json:"breakpoint_lines"`
	BPFuncs    []string `json:"breakpoint_funcs"`
	FuncsFirst bool     `json:"funcs_first,omitempty"` // order of the requests inside the one SetBreakpoints call
	Split      bool     `json:"split_calls,omitempty"` // function and line breakpoints in two SetBreakpoints calls (order given by FuncsFirst)
	Entry      bool     `json:"start_with_entry_step"`
	Answers    []int    `json:"answers"` // per stop: 0 Continue, 1 StepInto, 2 StepOver, 3 StepOut (default 0 beyond the list)
}

type outcome struct {
	Out    string
	ErrOut string // what the interpreter wrote to Options.Stderr (panic position lines)
	Err    string
	Events []ev
	Stops  int
	Hang   bool
}

var reasons = map[interp.DebugEventReason]string{interp.DebugPause: "pause", interp.DebugBreak: "break", interp.DebugEntry: "entry", interp.DebugStepInto: "stepinto",
	interp.DebugStepOver: "stepover", interp.DebugStepOut: "stepout", interp.DebugTerminate: "terminate", interp.DebugEnterGoRoutine: "enter", interp.DebugExitGoRoutine: "exit"}

func errString(err error) string {
	if err == nil {
		return ""
	}
	var p interp.Panic
	if errors.As(err, &p) {
		return "panic:" + fmt.Sprint(p.Value)
	}
	return "error:" + strings.SplitN(err.Error(), "\n", 2)[0]
}

func plain(p program) outcome {
	var buf, ebuf bytes.Buffer
	steps := 0
	i := interp.New(interp.Options{Stdout: &buf, Stderr: &ebuf})
	i.Use(h.Exports(&buf, &steps))
	i.Use(syncExports)
	prog, err := i.Compile(p.Src)
	if err != nil {
		return outcome{Err: "compile:" + err.Error()}
	}
	_, err = i.Execute(prog)
	return outcome{Out: buf.String(), ErrOut: ebuf.String(), Err: errString(err)}
}

func debug(p program, s session) (o outcome) {
	var buf, ebuf bytes.Buffer
	steps := 0
	i := interp.New(interp.Options{Stdout: &buf, Stderr: &ebuf})
	i.Use(h.Exports(&buf, &steps))
	i.Use(syncExports)
	prog, err := i.Compile(p.Src)
	if err != nil {
		return outcome{Err: "compile:" + err.Error()}
	}
	type stop struct {
		g int
	}
	stops := make(chan stop, 1)
	term := make(chan struct{})
	var events []ev
	dbg := i.Debug(context.Background(), prog, func(e *interp.DebugEvent) {
		r := e.Reason()
		x := ev{Reason: reasons[r], OutLen: buf.Len()}
		if r != interp.DebugTerminate {
			if fr := e.Frames(0, 1); len(fr) == 1 {
				x.Line = fr[0].Position().Line
			}
		}
		events = append(events, x)
		switch r {
		case interp.DebugTerminate:
			close(term)
		case interp.DebugEnterGoRoutine, interp.DebugExitGoRoutine:
		default:
			stops <- stop{e.GoRoutine()}
		}
	}, nil)
	var reqs []interp.BreakpointRequest
	if s.FuncsFirst {
		for _, f := range s.BPFuncs {
			reqs = append(reqs, interp.FunctionBreakpoint(f))
		}
	}
	for _, l := range s.BPLines {
		reqs = append(reqs, interp.LineBreakpoint(l))
	}
	if !s.FuncsFirst {
		for _, f := range s.BPFuncs {
			reqs = append(reqs, interp.FunctionBreakpoint(f))
		}
	}
	if s.Split && len(s.BPFuncs) > 0 && len(s.BPLines) > 0 {
		// two requests, as a DAP client sends them (setFunctionBreakpoints / setBreakpoints): a request that names no
		// function leaves the function breakpoints alone and vice versa
		var fr, lr []interp.BreakpointRequest
		for _, f := range s.BPFuncs {
			fr = append(fr, interp.FunctionBreakpoint(f))
		}
		for _, l := range s.BPLines {
			lr = append(lr, interp.LineBreakpoint(l))
		}
		if s.FuncsFirst {
			dbg.SetBreakpoints(interp.ProgramBreakpointTarget(prog), fr...)
			dbg.SetBreakpoints(interp.ProgramBreakpointTarget(prog), lr...)
		} else {
			dbg.SetBreakpoints(interp.ProgramBreakpointTarget(prog), lr...)
			dbg.SetBreakpoints(interp.ProgramBreakpointTarget(prog), fr...)
		}
	} else if len(reqs) > 0 {
		dbg.SetBreakpoints(interp.ProgramBreakpointTarget(prog), reqs...)
	}
	answer := func(g, a int) {
		for tries := 0; tries < 2000; tries++ {
			var err error
			switch a {
			case 0:
				err = dbg.Continue(g)
			case 1:
				err = dbg.Step(g, interp.DebugStepInto)
			case 2:
				err = dbg.Step(g, interp.DebugStepOver)
			case 3:
				err = dbg.Step(g, interp.DebugStepOut)
			}
			if err == nil || errors.Is(err, interp.ErrNotLive) {
				return
			}
			time.Sleep(50 * time.Microsecond) // ErrRunning is transient: the routine has not parked yet
		}
	}
	if s.Entry {
		dbg.Step(0, interp.DebugEntry)
	} else {
		dbg.Continue(0)
	}
	deadline := time.After(90 * time.Second)
loop:
	for {
		select {
		case st := <-stops:
			a := 0
			if o.Stops < len(s.Answers) {
				a = s.Answers[o.Stops]
			}
			o.Stops++
			answer(st.g, a)
		case <-term:
			break loop
		case <-deadline:
			o.Hang = true
			dbg.Terminate()
			break loop
		}
	}
	if !o.Hang {
		done := make(chan struct{})
		go func() {
			_, err = dbg.Wait()
			close(done)
		}()
		select {
		case <-done:
			o.Err = errString(err)
		case <-time.After(60 * time.Second):
			o.Hang = true
		}
	}
	o.Out = buf.String()
	o.ErrOut = ebuf.String()
	o.Events = events
	return o
}

// check compares a session with plain execution and validates the event trace against the markers.
func check(p program, s session, ref, o outcome) string {
	if o.Hang {
		return "session did not terminate"
	}
	if o.Out != ref.Out {
		return fmt.Sprintf("output differs from plain execution: %q vs %q", o.Out, ref.Out)
	}
	if o.Err != ref.Err {
		return fmt.Sprintf("result/panic differs from plain execution: %q vs %q", o.Err, ref.Err)
	}
	if o.ErrOut != ref.ErrOut {
		return fmt.Sprintf("standard error differs from plain execution: %q vs %q", o.ErrOut, ref.ErrOut)
	}
	if len(o.Events) == 0 || o.Events[len(o.Events)-1].Reason != "terminate" {
		return "the session does not end with a terminate event"
	}
	// markers: output lines; first field of each line is the line number
	type mark struct{ line, off int }
	var marks []mark
	off := 0
	for _, l := range strings.SplitAfter(o.Out, "\n") {
		if f := strings.Fields(l); len(f) > 0 {
			if n, err := strconv.Atoi(f[0]); err == nil {
				marks = append(marks, mark{n, off})
			}
		}
		off += len(l)
	}
	bp := map[int]bool{}
	for _, l := range s.BPLines {
		bp[l] = true
	}
	isMarker := map[int]bool{}
	for _, l := range p.Lines {
		isMarker[l] = true
	}
	// (a) every execution of a marker line carrying a breakpoint is preceded, after the previous marker, by a break event on that line
	prevOff := -1
	for _, m := range marks {
		if bp[m.line] {
			found := false
			for _, e := range o.Events {
				if e.Reason == "break" && e.Line == m.line && e.OutLen > prevOff && e.OutLen <= m.off {
					found = true
					break
				}
			}
			if !found {
				return fmt.Sprintf("line %d executed (output offset %d) without a preceding break event on it", m.line, m.off)
			}
		}
		prevOff = m.off
	}
	// (b) every break event positioned on a marker line is followed by that line's marker before any other marker
	for _, e := range o.Events {
		if e.Reason != "break" || !isMarker[e.Line] || !bp[e.Line] {
			continue
		}
		next := -1
		for _, m := range marks {
			if m.off >= e.OutLen {
				next = m.line
				break
			}
		}
		if next != e.Line {
			return fmt.Sprintf("break reported on line %d but the next line to execute is %d", e.Line, next)
		}
	}
	return ""
}

type fail struct {
	S    session `json:"session"`
	What string  `json:"what"`
	Out  string  `json:"output"`
	Evs  []ev    `json:"events"`
}

// explore: deviation-bounded DFS over the answers of one (program, breakpoint set, start mode).
func explore(p program, ref outcome, base session, bound int) (fails []fail) {
	var rec func(prefix []int, devs int)
	rec = func(prefix []int, devs int) {
		s := base
		s.Answers = prefix
		o := debug(p, s)
		par.Count("sessions", 1)
		par.Count("stops", int64(o.Stops))
		par.Count("events", int64(len(o.Events)))
		par.Distinct("traces", p.Name+fmt.Sprint(o.Events))
		w := check(p, s, ref, o)
		if w == "" && len(prefix) == 0 && len(s.BPLines) > 0 {
			w = funcStopsKept(p, s, o)
		}
		if w != "" {
			fails = append(fails, fail{S: s, What: w, Out: o.Out, Evs: o.Events})
			return
		}
		if devs >= bound {
			return
		}
		for i := len(prefix); i < o.Stops; i++ {
			for a := 1; a <= 3; a++ {
				np := make([]int, i+1)
				copy(np, prefix)
				np[i] = a
				rec(np, devs+1)
			}
		}
	}
	rec(nil, 0)
	return
}

// funcRef: per program and function, the break events of the all-Continue session whose only breakpoint is that
// function (filled before the exploration starts, read-only afterwards).
var funcRef = map[string][]ev{}

// funcStopsKept is the differential oracle for mixed breakpoint sets: with all-Continue answers, adding line breakpoints
// (in the same or in another request) must not remove any stop the function breakpoint produces on its own — the same
// line at the same point of the output.
func funcStopsKept(p program, s session, o outcome) string {
	for _, f := range s.BPFuncs {
		for _, want := range funcRef[p.Name+"\x00"+f] {
			found := false
			for _, e := range o.Events {
				if e.Reason == "break" && e.Line == want.Line && e.OutLen == want.OutLen {
					found = true
					break
				}
			}
			if !found {
				return fmt.Sprintf("function breakpoint on %s: the stop on line %d it produces on its own is missing once line breakpoints are added", f, want.Line)
			}
		}
	}
	return ""
}

type unit struct {
	P    int
	Base session
}

func main() {
	r := report.Start("C19", "model_checking")
	ps := load(r.Thorough())
	if r.Replay != "" {
		var cs []fail
		if err := report.ReadReplay(r.Replay, &cs); err != nil {
			fmt.Fprintln(os.Stderr, "HARNESS-ERROR:", err)
			os.Exit(3)
		}
		bad := 0
		for _, c := range cs {
			for _, p := range ps {
				if p.Name != c.S.Prog {
					continue
				}
				ref := plain(p)
				var w string
				for k := 0; k < 3; k++ { // replayed three times: identical observations required
					w2 := check(p, c.S, ref, debug(p, c.S))
					if k > 0 && w2 != w {
						fmt.Println("HARNESS-ERROR: replay diverges between runs")
						os.Exit(3)
					}
					w = w2
				}
				if w != "" {
					bad++
					fmt.Printf("replay %s breakpoints=%v funcs=%v entry=%v answers=%v: %s\n%s\n", p.Name, c.S.BPLines, c.S.BPFuncs, c.S.Entry, c.S.Answers, w, p.Src)
				} else {
					fmt.Println("replay: holds now:", p.Name, c.S.BPLines, c.S.Answers)
				}
			}
		}
		if bad > 0 {
			fmt.Printf("VIOLATION property=C19 replay=%s\n", r.Replay)
			os.Exit(1)
		}
		os.Exit(0)
	}
	bound := 2
	if r.Thorough() {
		bound = 3
	}
	var units []unit
	for pi, p := range ps {
		sets := [][]int{nil, p.Lines}
		for _, l := range p.Lines {
			sets = append(sets, []int{l})
		}
		if r.Thorough() {
			for a := 0; a < len(p.Lines); a++ {
				for b := a + 1; b < len(p.Lines); b++ {
					sets = append(sets, []int{p.Lines[a], p.Lines[b]})
				}
			}
		}
		for _, set := range sets {
			for _, entry := range []bool{false, true} {
				units = append(units, unit{pi, session{Prog: p.Name, BPLines: set, Entry: entry}})
			}
		}
		for _, f := range p.Funcs {
			units = append(units, unit{pi, session{Prog: p.Name, BPFuncs: []string{f}}})
		}
		units = append(units, unit{pi, session{Prog: p.Name, BPFuncs: p.Funcs, Entry: true}})
		// mixed sets in ONE SetBreakpoints call: each function breakpoint with each line breakpoint (inside or outside
		// that function), both request orders; all functions with every line
		for _, f := range p.Funcs {
			for _, l := range p.Lines {
				for _, ff := range []bool{false, true} {
					units = append(units, unit{pi, session{Prog: p.Name, BPLines: []int{l}, BPFuncs: []string{f}, FuncsFirst: ff}})
				}
			}
		}
		units = append(units, unit{pi, session{Prog: p.Name, BPLines: p.Lines, BPFuncs: p.Funcs}}, unit{pi, session{Prog: p.Name, BPLines: p.Lines, BPFuncs: p.Funcs, FuncsFirst: true}})
		// the same mixed sets sent as two requests (functions then lines, lines then functions)
		for _, f := range p.Funcs {
			for _, l := range p.Lines {
				for _, ff := range []bool{false, true} {
					units = append(units, unit{pi, session{Prog: p.Name, BPLines: []int{l}, BPFuncs: []string{f}, FuncsFirst: ff, Split: true}})
				}
			}
		}
		units = append(units, unit{pi, session{Prog: p.Name, BPLines: p.Lines, BPFuncs: p.Funcs, Split: true}}, unit{pi, session{Prog: p.Name, BPLines: p.Lines, BPFuncs: p.Funcs, FuncsFirst: true, Split: true}})
	}
	refs := make([]outcome, len(ps))
	for i, p := range ps {
		refs[i] = plain(p)
		if strings.HasPrefix(refs[i].Err, "compile:") {
			r.HarnessError("corpus program %s: %s", p.Name, refs[i].Err)
		}
	}
	for _, p := range ps {
		for _, f := range p.Funcs {
			o := debug(p, session{Prog: p.Name, BPFuncs: []string{f}})
			for _, e := range o.Events {
				if e.Reason == "break" {
					funcRef[p.Name+"\x00"+f] = append(funcRef[p.Name+"\x00"+f], e)
				}
			}
		}
	}
	res := par.Map(len(units), func(i int) *[]fail {
		u := units[i]
		b := bound
		if len(u.Base.BPLines) == len(ps[u.P].Lines) && len(u.Base.BPLines) > 1 && b > 1 {
			b-- // every-line breakpoint sets have many stops: one deviation less keeps the tree bounded
		}
		f := explore(ps[u.P], refs[u.P], u.Base, b)
		if len(f) == 0 {
			return nil
		}
		if len(f) > 5 {
			f = f[:5]
		}
		return &f
	}, par.Opts{CaseTimeout: 600 * 1e9, GoMaxProcs: 4})
	for _, fs := range res.Outs {
		for _, f := range fs {
			r.Fail(report.Failure{Key: keyOf(f), What: fmt.Sprintf("%s breakpoints=%v funcs=%v entry=%v answers=%v: %s", f.S.Prog, f.S.BPLines, f.S.BPFuncs, f.S.Entry, f.S.Answers, f.What), Case: f})
		}
	}
	for _, a := range res.Abnormal {
		u := units[a.Idx]
		r.Fail(report.Failure{Key: u.Base.Prog + " | " + a.Kind, What: fmt.Sprintf("%s breakpoints=%v: %s", u.Base.Prog, u.Base.BPLines, a.Kind), Case: fail{S: u.Base, What: a.Kind}})
	}
	n := res.Counts["sessions"]
	r.Set("evaluations", n)
	r.Set("states", len(res.Sets["traces"]))
	r.Set("transitions", res.Counts["events"])
	r.Set("traces_validated_against_impl", n)
	r.Set("distinct_nontrivial", len(res.Sets["traces"]))
	r.Set("stops_answered", res.Counts["stops"])
	r.Set("deviation_bound", bound)
	r.Set("programs", len(ps))
	r.Set("exhaustive", len(res.Abnormal) == 0)
	r.Set("rule", "corpus of 20 sequential programs (branches, loops, calls, recursion, closures, defers, recovered and uncaught panics, switch/fallthrough, methods, dependent package-level variables + init, generic functions, package-qualified types in declarations), each in two forms: marker before / after the statement of its line with one Show(line) marker per breakable line; breakpoint sets: none, every marker line, each single line (thorough: each pair), each function, all functions, each function x each line in one request (both orders) and in two requests (both orders), all functions + every line (one and two requests); differential oracle for mixed sets: every stop a function breakpoint produces alone is still produced when line breakpoints are added; start with Continue or Step(DebugEntry); resume answers Continue/StepInto/StepOver/StepOut explored by deviation-bounded DFS (default Continue, <= bound deviations); states = distinct event traces")
	r.Assumptions = []string{"sequential programs only (no goroutines under the debugger)", "lines without a marker (compound statement headers) only take part in the transparency comparison", "every-line breakpoint sets are explored with one deviation less than the bound"}
	for _, i := range []int{0, len(units) / 2, len(units) - 1} {
		r.Sample(units[i].Base)
	}
	r.Finish()
}

var numRe = regexp.MustCompile(`[0-9]+`)

// keyOf: program + kind of breakpoint set + symptom with the line numbers kept (they identify the construct).
func keyOf(f fail) string {
	kind := "no-breakpoints"
	switch {
	case len(f.S.BPFuncs) > 0 && len(f.S.BPLines) > 0:
		kind = "mixed function+line"
	case len(f.S.BPFuncs) > 0:
		kind = "function-breakpoints"
	case len(f.S.BPLines) == 1:
		kind = "single-line"
	case len(f.S.BPLines) == 2:
		kind = "line-pair"
	case len(f.S.BPLines) > 2:
		kind = "every-line"
	}
	w := f.What
	if strings.HasPrefix(w, "standard error differs") {
		w = "standard error differs from plain execution"
	}
	if i := strings.Index(w, ":"); i > 0 && strings.HasPrefix(w, "output differs") {
		w = "output differs from plain execution"
	}
	w = regexp.MustCompile(`\(output offset [0-9]+\) `).ReplaceAllString(w, "")
	dev := "continue-only"
	for _, a := range f.S.Answers {
		if a != 0 {
			dev = "with-steps"
		}
	}
	return f.S.Prog + " | " + kind + " | " + dev + " | " + w
}
