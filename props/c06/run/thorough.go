//go:build thorough

package main

import _ "verif/gen/c06t"
