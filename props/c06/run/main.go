// C06: panic / defer / recover against the compiled twin, plus the Eval boundary:
// an uncaught panic is returned as interp.Panic carrying the value, the host survives
// and the interpreter stays usable (a function defined before the panic still works).
package main

import (
	"strings"

	"verif/engine/par"
	"verif/engine/report"
	"verif/engine/twin"
	_ "verif/gen/c06q"
)

var opt = twin.Options{Entry: "Main()", After: "afterAll(20)", AfterExpect: "after 169\n"}

func main() {
	r := report.Start("C06", "fault_enumeration")
	if r.Replay != "" {
		twin.Replay(r, opt)
	}
	r.Assumptions = []string{
		"reference = gc on the identical text; texts of run-time fault messages are not compared (only that they are panics, recoverable, at the same output position)",
		"panics in goroutines other than the evaluating one crash the host exactly as in Go: outside the statement",
	}
	twin.Rekey = rekey
	twin.RunAll(r, nil, func(c twin.Case, n, i twin.Obs) string { return c.Name }, opt, par.Opts{})
	r.Set("exhaustive", true)
	r.Set("rule", "full product: defer stacks (<=2 of 25 kinds: literals, named functions, methods, method values, builtins, defers registered in loops; plus 5 kinds of declared functions / methods / function values that call recover() directly, paired with the 8 core kinds) x 13 endings (explicit panics of 4 value types + 8 run-time faults + return) x main recovers or not, at call depth 2; depth 3 with the stacks split over f and g; family R: one or two of 8 defer kinds repeated at 3 depths of a recursion x all endings; after every program Eval(\"afterAll(20)\") - a declared function, a closure variable and a stateful closure returned by a constructor, all created before the program ran - must still work; non-trivial = output lines not all equal")
	r.Finish()
}

// rekey: a failing program is attributed to a failing program with one defer removed (same ending, same main).
func rekey(name, key string, failing map[string]bool) string {
	cur := name
	for {
		next := ""
		for _, cand := range reductions(cur) {
			// only towards a program that fails in the same way: a program whose first difference is the usability
			// line ("after ...") is a different finding than one whose own output or ending differs
			if failing[cand] && usability(cand) == usability(name) {
				next = cand
				break
			}
		}
		if next == "" {
			if usability(name) {
				return cur + " ## not usable afterwards"
			}
			return cur
		}
		cur = next
	}
}

// usability: the first difference of this failing program is the line printed by the Eval made after the program.
func usability(name string) bool {
	return strings.Contains(twin.Symptoms[name], "native=\"after ")
}

func reductions(name string) []string {
	parts := strings.Split(name, "|")
	if strings.HasPrefix(name, "R:") {
		// recursion family: drop the second defer, then the simplest ending / main
		var out []string
		ab := strings.SplitN(parts[0][2:], "+", 2)
		if len(ab) == 2 && ab[1] != "-" {
			out = append(out, "R:"+ab[0]+"+-|"+parts[1]+"|"+parts[2], "R:"+ab[1]+"+-|"+parts[1]+"|"+parts[2])
		}
		for _, simple := range []string{"ret", "panicstr"} {
			if parts[1] != simple && !(simple == "panicstr" && parts[1] == "ret") {
				out = append(out, parts[0]+"|"+simple+"|"+parts[2])
			}
		}
		if parts[2] != "main:rec" {
			out = append(out, parts[0]+"|"+parts[1]+"|main:rec")
		}
		// what fails without any recursion or defer is not a finding of this family
		out = append(out, "f:-|"+parts[1]+"|"+parts[2], "f:-|panicstr|"+parts[2])
		return out
	}
	var out []string
	for pi, p := range parts {
		if !(strings.HasPrefix(p, "f:") || strings.HasPrefix(p, "g:")) {
			continue
		}
		pre, st := p[:2], p[2:]
		if st == "-" {
			continue
		}
		ds := strings.Split(st, "+")
		for k := range ds {
			rest := append(append([]string{}, ds[:k]...), ds[k+1:]...)
			ns := "-"
			if len(rest) > 0 {
				ns = strings.Join(rest, "+")
			}
			np := append(append([]string{}, parts[:pi]...), pre+ns)
			np = append(np, parts[pi+1:]...)
			out = append(out, strings.Join(np, "|"))
		}
	}
	// a simpler defer kind in place of one of the stack (the product is closed under substitution)
	for pi, p := range parts {
		if !(strings.HasPrefix(p, "f:") || strings.HasPrefix(p, "g:")) || p[2:] == "-" {
			continue
		}
		ds := strings.Split(p[2:], "+")
		for k := range ds {
			if ds[k] == "lit" {
				continue
			}
			nd := append([]string{}, ds...)
			nd[k] = "lit"
			np := append([]string{}, parts...)
			np[pi] = p[:2] + strings.Join(nd, "+")
			out = append(out, strings.Join(np, "|"))
		}
	}
	// simpler ending, recovering main
	ei := len(parts) - 2
	for _, simple := range []string{"ret", "panicstr"} {
		if parts[ei] != simple && !(simple == "panicstr" && parts[ei] == "ret") {
			np := append([]string{}, parts...)
			np[ei] = simple
			out = append(out, strings.Join(np, "|"))
		}
	}
	if parts[ei+1] != "main:rec" {
		np := append([]string{}, parts...)
		np[ei+1] = "main:rec"
		out = append(out, strings.Join(np, "|"))
	}
	// depth 3 with an empty g stack reduces to the depth-2 program with f's stack
	if len(parts) == 4 && parts[1] == "g:-" {
		out = append(out, parts[0]+"|"+parts[2]+"|"+parts[3])
	}
	// depth 3 with an empty f stack reduces to the depth-2 program whose f has g's stack
	if len(parts) == 4 && parts[0] == "f:-" {
		out = append(out, "f:"+parts[1][2:]+"|"+parts[2]+"|"+parts[3])
	}
	return out
}
