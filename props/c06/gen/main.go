// Generator for C06: call trees main -> f (-> g), defer stacks, endings
// (explicit panics and every run-time fault), recover placements.
package main

import (
	"flag"
	"fmt"
	"os"
	"strings"

	"verif/engine/twin/emit"
)

type kv struct{ name, text string }

var defers = []kv{
	{"lit", `defer func() { Show("d-lit") }()`},
	{"rec", `defer func() { r := recover(); Show("d-rec", r != nil) }()`},
	{"recval", `defer func() { describe("d-recval", recover()) }()`},
	{"nested", `defer func() { helper() }()`},
	{"named", `defer named("x")`},
	{"args", "x := 1\ndefer Show(\"d-arg\", x)\nx = 2\n_ = x"},
	{"argsfn", "x := 1\ndefer named2(\"d-argfn\", x)\nx = 2\n_ = x"},
	{"loop", "for i := 0; i < 2; i++ {\ndefer Show(\"d-loop\", i)\n}"},
	{"looplit", "for i := 0; i < 2; i++ {\ndefer func(k int) { Show(\"d-looplit\", k) }(i * 3)\n}"},
	{"result", `defer func() { res += 10 }()`},
	{"repanic", `defer func() { Show("d-repanic"); panic("again") }()`},
	{"recnil", `defer func() { r := recover(); Show("d-recnil", r == nil) }()`},
	{"recres", `defer func() { if r := recover(); r != nil { res = -1 } }()`},
	{"method", `defer tt.M()`},
	{"pmethod", `defer pp.PM(3)`},
	{"methodval", "mv := tt.M\ntt.N = 8\ndefer mv()"},
	{"closurevar", "y := 5\ndefer func() { Show(\"d-cv\", y) }()\ny = 6"},
	{"builtin", "mm := map[string]int{\"a\": 1, \"b\": 2}\ndefer func() { Show(\"d-builtin\", len(mm)) }()\ndefer delete(mm, \"a\")"},
	{"closech", "ch := make(chan int, 1)\ndefer func() { _, ok := <-ch; Show(\"d-closech\", ok) }()\ndefer close(ch)"},
	{"recrepanic", `defer func() { r := recover(); Show("d-recrepanic", r != nil); if r != nil { panic(r) } }()`},
	// the same defer statement executed several times before its deferred calls run (loop): builtins, literals, methods
	{"loopdelete", "dm := map[int]bool{0: true, 1: true, 2: true, 3: true}\ndefer func() { Show(\"d-loopdelete\", len(dm), dm[3], dm[0]) }()\nfor i := 0; i < 3; i++ {\ndefer delete(dm, i)\n}"},
	{"loopclose", "chs := []chan int{make(chan int, 1), make(chan int, 1), make(chan int, 1)}\ndefer func() {\nfor k := 0; k < len(chs); k++ {\nselect {\ncase _, ok := <-chs[k]:\nShow(\"d-loopclose\", ok)\ndefault:\nShow(\"d-loopclose open\")\n}\n}\n}()\nfor i := 0; i < 2; i++ {\ndefer close(chs[i])\n}"},
	{"loopcopy", "dst := make([]int, 4)\ndefer func() { Show(\"d-loopcopy\", dst) }()\nfor i := 0; i < 3; i++ {\ndefer copy(dst[i:], []int{i + 1})\n}"},
	{"loopmethod", "for i := 0; i < 2; i++ {\ndefer pp.PM(i * 5)\n}"},
	{"loopnamed", "for i := 0; i < 2; i++ {\ndefer named2(\"d-loopnamed\", i)\n}"},
	// second generation (ext): recover() called directly by a deferred DECLARED function / method / function value
	{"namedrec", `defer recNamed("d-namedrec")`},
	{"methodrec", `defer tt.Rec()`},
	{"pmethodrec", `defer pp.PRec()`},
	{"funcvalrec", "fv := recNamed\ndefer fv(\"d-funcvalrec\")"},
	{"namedrecres", `defer recRes(&res)`},
}

// ext kinds are combined with the core kinds only (both orders), to keep the generated binary linkable.
var extDefer = map[string]bool{"namedrec": true, "methodrec": true, "pmethodrec": true, "funcvalrec": true, "namedrecres": true}

var endings = []kv{
	{"ret", "return 1"},
	{"panicstr", `panic("boom")`},
	{"panicint", "panic(42)"},
	{"panicerr", "panic(E{3})"},
	{"panicstruct", "panic(T{9})"},
	{"nilderef", "var p *T\nreturn p.N"},
	{"index", "a := []int{1}\ni := 5\nreturn a[i]"},
	{"slice", "a := []int{1}\ni := 5\nreturn len(a[:i])"},
	{"div", "z := 0\nreturn 10 / z"},
	{"nilmap", "var m map[string]int\nm[\"a\"] = 1\nreturn 2"},
	{"assert", "var e interface{} = \"s\"\nreturn e.(int)"},
	{"close", "c := make(chan int)\nclose(c)\nclose(c)\nreturn 3"},
	{"arrayidx", "var a [2]int\ni := 2\na[i%3] = 1\nreturn a[0]"},
}

const decls = `type T struct{ N int }

func (t T) M() { Show("d-method", t.N) }

func (t *T) PM(k int) { Show("d-pmethod", t.N+k) }

type E struct{ c int }

func (e E) Error() string { return "E!" }

var tt = T{7}

var pp = &T{4}

func helper() { r := recover(); Show("helper-rec", r != nil) }

func recNamed(tag string) { r := recover(); Show(tag, r != nil) }

func (t T) Rec() { describe("d-methodrec", recover()) }

func (t *T) PRec() { r := recover(); Show("d-pmethodrec", r != nil, t.N) }

func recRes(res *int) {
	if r := recover(); r != nil {
		*res = -7
	}
}

func named(s string) { Show("d-named", s) }

func named2(s string, v int) { Show(s, v) }

func after(x int) int { return x + 1 }

// function literal values created before the program runs; afterAll calls a declared function, a closure variable
// and a stateful closure returned by a constructor: all must still work after the program, whatever its ending
var keepc = func() int { return 47 }

var mkc = func() func() int {
	n := 100
	return func() int {
		n++
		return n
	}
}()

func afterAll(x int) int { return after(x) + keepc() + mkc() }

func describe(tag string, r interface{}) {
	switch v := r.(type) {
	case nil:
		Show(tag, "nil")
	case string:
		Show(tag, "string", v)
	case int:
		Show(tag, "int", v)
	case E:
		Show(tag, "E", v.c, v.Error())
	case T:
		Show(tag, "T", v.N)
	case error:
		Show(tag, "error")
	default:
		Show(tag, "other")
	}
}
`

var coreDefer = map[string]bool{"lit": true, "rec": true, "nested": true, "args": true, "result": true, "repanic": true, "method": true, "loopdelete": true}

func stackText(st []int) string {
	var b strings.Builder
	for _, d := range st {
		b.WriteString("{\n" + defers[d].text + "\n}\n")
	}
	return b.String()
}

func stackName(st []int) string {
	if len(st) == 0 {
		return "-"
	}
	var n []string
	for _, d := range st {
		n = append(n, defers[d].name)
	}
	return strings.Join(n, "+")
}

func stacks(max int) [][]int {
	out := [][]int{{}}
	for a := range defers {
		out = append(out, []int{a})
	}
	if max >= 2 {
		for a := range defers {
			for b := range defers {
				na, nb := defers[a].name, defers[b].name
				if (extDefer[na] && !coreDefer[nb]) || (extDefer[nb] && !coreDefer[na]) {
					continue
				}
				out = append(out, []int{a, b})
			}
		}
	}
	return out
}

func main() {
	tier := flag.String("tier", "quick", "")
	flag.Parse()
	thorough := *tier == "thorough"
	var progs, progsT []emit.Src
	mains := []kv{
		{"rec", "func Main() {\ndefer func() { r := recover(); Show(\"main-rec\", r != nil) }()\nShow(\"f=\", f())\nShow(\"end\")\n}\n"},
		{"recval", "func Main() {\ndefer func() { describe(\"main-recval\", recover()) }()\nShow(\"f=\", f())\nShow(\"end\")\n}\n"},
		{"norec", "func Main() {\ndefer Show(\"main-defer\")\nShow(\"f=\", f())\nShow(\"end\")\n}\n"},
	}
	head := "package main\n\nimport . \"verif/engine/twin/h\"\n\n" + decls + "\n"
	// depth 2: main -> f
	for _, st := range stacks(2) {
		for _, en := range endings {
			for _, m := range mains {
				text := head + "func f() (res int) {\n" + stackText(st) + en.text + "\n}\n\n" + m.text
				progs = append(progs, emit.Src{Name: fmt.Sprintf("f:%s|%s|main:%s", stackName(st), en.name, m.name), Text: text})
			}
		}
	}
	// depth 3: main -> f -> g ; f has <= 1 defer, g has <= 1 (quick) / <= 2 (thorough)
	for _, fs := range stacks(1) {
		for _, gs := range stacks(2) {
			if len(gs) == 2 && !thorough {
				continue
			}
			if len(gs) == 2 && !(coreDefer[defers[gs[0]].name] && coreDefer[defers[gs[1]].name]) {
				continue // thorough: two-defer stacks in g over the core kinds only (the binary must stay linkable)
			}
			for _, en := range endings {
				for _, m := range mains {
					text := head + "func g() (res int) {\n" + stackText(gs) + en.text + "\n}\n\nfunc f() (res int) {\n" + stackText(fs) + "res = g() + 100\nShow(\"f-after-g\", res)\nreturn res\n}\n\n" + m.text
					s := emit.Src{Name: fmt.Sprintf("f:%s|g:%s|%s|main:%s", stackName(fs), stackName(gs), en.name, m.name), Text: text}
					if len(gs) == 2 {
						progsT = append(progsT, s)
					} else {
						progs = append(progs, s)
					}
				}
			}
		}
	}
	// family R: the same defer statement at several depths of a recursion, parametrised by the depth
	rdefers := []kv{
		{"lit", "defer func() { Show(\"r-lit\", d) }()"},
		{"arg", "defer named2(\"r-arg\", d)"},
		{"delete", "defer delete(rm, d)"},
		{"close", "defer close(rchs[d])"},
		{"copy", "defer copy(rdst[d:], []int{d + 1})"},
		{"method", "defer pp.PM(d)"},
		{"result", "defer func() { res += d }()"},
		{"rec", "defer func() { if d == 1 { Show(\"r-rec\", recover() != nil) } }()"},
	}
	rdecl := "var rm = map[int]bool{0: true, 1: true, 2: true, 9: true}\n\nvar rchs = []chan int{make(chan int), make(chan int), make(chan int)}\n\nvar rdst = make([]int, 4)\n\nfunc rstate() {\n\topen := 0\n\tfor k := 0; k < len(rchs); k++ {\n\t\tselect {\n\t\tcase <-rchs[k]:\n\t\tdefault:\n\t\t\topen++\n\t\t}\n\t}\n\tShow(\"r-state\", len(rm), rm[9], open, rdst)\n}\n\n"
	for _, a := range rdefers {
		for _, b := range append([]kv{{"-", ""}}, rdefers...) {
			for _, en := range endings {
				for _, m := range []kv{mains[0], mains[2]} {
					text := head + rdecl + "func rf(d int) (res int) {\n" + a.text + "\n" + b.text + "\nif d > 0 {\nreturn rf(d-1) + 1\n}\n" + en.text + "\n}\n\nfunc f() (res int) {\ndefer rstate()\nreturn rf(2)\n}\n\n" + m.text
					progs = append(progs, emit.Src{Name: fmt.Sprintf("R:%s+%s|%s|main:%s", a.name, b.name, en.name, m.name), Text: text})
				}
			}
		}
	}
	emitAll := func(out, pkg string, ps []emit.Src, shards int) int {
		res, err := emit.Package(out, pkg, ps, shards)
		if err != nil {
			fmt.Fprintln(os.Stderr, "HARNESS-ERROR:", err)
			os.Exit(3)
		}
		for i, r := range res.Rejected {
			if i < 15 {
				fmt.Fprintln(os.Stderr, "rejected:", r)
			}
		}
		if len(res.Rejected) > 0 {
			fmt.Fprintf(os.Stderr, "HARNESS-ERROR: %d generated programs rejected by go/types\n", len(res.Rejected))
			os.Exit(3)
		}
		return res.Emitted
	}
	nq := emitAll(emit.Root()+"/gen/c06q", "c06q", progs, 64)
	nt := 0
	if thorough {
		nt = emitAll(emit.Root()+"/gen/c06t", "c06t", progsT, 256)
	}
	fmt.Printf("c06 gen tier=%s: defer kinds=%d endings=%d programs quick=%d thorough-extra=%d\n", *tier, len(defers), len(endings), nq, nt)
}
