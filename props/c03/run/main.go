// C03: constant expressions. Every tree of the bounded grammar, in several use contexts, is
// decided by go/types + go/constant (value, default type, or rejection for overflow / truncation /
// division by zero) and replayed on the interpreter.
package main

import (
	"bytes"
	"fmt"
	"go/ast"
	"go/constant"
	"go/parser"
	"go/printer"
	"go/token"
	"go/types"
	"math"
	"os"
	"reflect"
	"regexp"
	"strconv"
	"strings"

	"github.com/traefik/yaegi/interp"
	"verif/engine/par"
	"verif/engine/report"
)

var leaves = []string{"0", "1", "2", "3", "7", "127", "128", "255", "256", "32767", "32768", "65535", "65536", "2147483647", "2147483648", "4294967295", "4294967296", "9223372036854775807", "9223372036854775808", "18446744073709551615", "18446744073709551616", "1606938044258990275541962092341162602522202993782792835301376", "'a'", "'\\x00'", "1.5", "0.1", "1e100", "1e-100", "3.4e38", "3.5e38", "1e39", "1.7e308", "1e309", "1e-46", "2i", "0i", "3.5e38i", "1e39i", "1e309i", `"ab"`, `""`, "true", "false"}
var smallLeaves = []string{"0", "1", "3", "127", "128", "255", "9223372036854775807", "18446744073709551616", "'a'", "1.5", "3.5e38", "2i", "0i", "1e39i", `"ab"`, "true"}
var binops = []string{"+", "-", "*", "/", "%", "&", "|", "^", "&^", "<<", ">>", "==", "!=", "<", "<=", ">", ">=", "&&", "||"}
var unops = []string{"+", "-", "^", "!"}
var convs = []string{"int", "int8", "int16", "int32", "int64", "uint", "uint8", "uint16", "uint32", "uint64", "uintptr", "float32", "float64", "complex64", "complex128", "string", "bool"}

type kase struct {
	Expr string `json:"expr"` // expression or const block
	Ctx  string `json:"ctx"`
	T    string `json:"iota_templates,omitempty"` // iota blocks: the template indices, e.g. "0,4,1"
}

// body returns the statements of the test function; the last statement shows x (or the iota names).
func (k kase) body() string {
	e := k.Expr
	switch k.Ctx {
	case "define":
		return "x := " + e + "\nh.Show(x)"
	case "const":
		return "const c = " + e + "\nx := c\nh.Show(x)"
	case "var:int8", "var:uint8", "var:int32", "var:int64", "var:uint64", "var:float32", "var:float64", "var:string", "var:complex64", "var:complex128":
		return "var x " + strings.TrimPrefix(k.Ctx, "var:") + " = " + e + "\nh.Show(x)"
	case "tconst:int8", "tconst:uint16", "tconst:int64", "tconst:float32", "tconst:rune", "tconst:float64", "tconst:complex64":
		return "const c " + strings.TrimPrefix(k.Ctx, "tconst:") + " = " + e + "\nx := c\nh.Show(x)"
	case "opvar:int8", "opvar:uint8", "opvar:int64", "opvar:float32", "opvar:float64", "opvar:complex64":
		return "var v " + strings.TrimPrefix(k.Ctx, "opvar:") + " = 1\nx := v + " + paren(e) + "\nh.Show(x)"
	case "arraylen":
		return "var a [" + e + "]struct{}\nx := len(a)\nh.Show(x)"
	case "lenstr":
		return "const c = len(" + e + ")\nx := c\nh.Show(x)"
	case "iota":
		return e
	}
	panic(k.Ctx)
}

func paren(e string) string { return "(" + e + ")" }

var demanded = regexp.MustCompile(`overflows|overflow|truncated|division by zero|not representable|cannot be represented`)

type verdict struct {
	ok       bool
	demanded bool // rejection for a reason named in the statement
	why      string
	konst    bool
	want     string // "<value> <type>" lines
}

func goCheck(k kase) verdict {
	src := "package p\n\ntype hT struct{}\n\nfunc (hT) Show(a ...interface{}) {}\n\nvar h hT\n\nfunc f() {\n" + k.body() + "\n}\n"
	fset := token.NewFileSet()
	f, err := parser.ParseFile(fset, "x.go", src, parser.SkipObjectResolution)
	if err != nil {
		return verdict{why: "parse: " + err.Error()}
	}
	info := &types.Info{Types: map[ast.Expr]types.TypeAndValue{}, Defs: map[*ast.Ident]types.Object{}}
	var first error
	conf := types.Config{GoVersion: "go1.22", Error: func(e error) {
		if first == nil {
			first = e
		}
	}}
	conf.Check("p", fset, []*ast.File{f}, info)
	if first != nil {
		msg := first.Error()
		if i := strings.Index(msg, ": "); i >= 0 {
			msg = msg[i+2:]
		}
		return verdict{why: msg, demanded: demanded.MatchString(msg)}
	}
	v := verdict{ok: true}
	// expected lines: the arguments of every h.Show call that are constants
	body := f.Decls[len(f.Decls)-1].(*ast.FuncDecl).Body
	var lines []string
	konst := true
	ast.Inspect(body, func(n ast.Node) bool {
		call, ok := n.(*ast.CallExpr)
		if !ok {
			return true
		}
		sel, ok := call.Fun.(*ast.SelectorExpr)
		if !ok || sel.Sel.Name != "Show" {
			return true
		}
		for _, a := range call.Args {
			tv := info.Types[a]
			if id, ok := a.(*ast.Ident); ok && tv.Value == nil {
				// x := <const expr>: take the value of the defining expression
				if val, typ, ok := definingConst(body, id.Name, info); ok {
					lines = append(lines, expected(val, typ)+" "+typeName(typ))
					continue
				}
			}
			if tv.Value == nil {
				konst = false
				continue
			}
			lines = append(lines, expected(tv.Value, tv.Type)+" "+typeName(tv.Type))
		}
		return true
	})
	v.konst = konst && len(lines) > 0
	v.want = strings.Join(lines, "\n")
	return v
}

// definingConst finds `name := E` / `var name T = E` with constant E and returns the value converted to name's type.
func definingConst(body *ast.BlockStmt, name string, info *types.Info) (constant.Value, types.Type, bool) {
	for _, st := range body.List {
		switch s := st.(type) {
		case *ast.AssignStmt:
			if len(s.Lhs) == 1 && len(s.Rhs) == 1 {
				if id, ok := s.Lhs[0].(*ast.Ident); ok && id.Name == name {
					tv := info.Types[s.Rhs[0]]
					if tv.Value != nil {
						t := tv.Type
						if obj := info.Defs[id]; obj != nil {
							t = obj.Type()
						}
						return tv.Value, t, true
					}
				}
			}
		case *ast.DeclStmt:
			gd := s.Decl.(*ast.GenDecl)
			if gd.Tok != token.VAR {
				continue
			}
			for _, sp := range gd.Specs {
				vs := sp.(*ast.ValueSpec)
				if len(vs.Names) == 1 && vs.Names[0].Name == name && len(vs.Values) == 1 {
					tv := info.Types[vs.Values[0]]
					if tv.Value != nil {
						return tv.Value, info.Defs[vs.Names[0]].Type(), true
					}
				}
			}
		}
	}
	return nil, nil, false
}

func typeName(t types.Type) string {
	b, ok := t.Underlying().(*types.Basic)
	if !ok {
		return t.String()
	}
	switch b.Kind() {
	case types.UntypedInt:
		return "int"
	case types.UntypedRune, types.Int32:
		return "int32"
	case types.UntypedFloat:
		return "float64"
	case types.UntypedComplex:
		return "complex128"
	case types.UntypedString:
		return "string"
	case types.UntypedBool:
		return "bool"
	case types.Uint8:
		return "uint8"
	}
	return b.Name()
}

func expected(v constant.Value, t types.Type) string {
	b := t.Underlying().(*types.Basic)
	switch {
	case b.Info()&types.IsBoolean != 0:
		return fmt.Sprint(constant.BoolVal(v))
	case b.Info()&types.IsString != 0:
		return fmt.Sprintf("%q", constant.StringVal(v))
	case b.Info()&types.IsUnsigned != 0:
		u, _ := constant.Uint64Val(constant.ToInt(v))
		return fmt.Sprint(u)
	case b.Info()&types.IsInteger != 0:
		i, _ := constant.Int64Val(constant.ToInt(v))
		return fmt.Sprint(i)
	case b.Kind() == types.Float32:
		f, _ := constant.Float32Val(v)
		return fmt.Sprint(f)
	case b.Info()&types.IsFloat != 0:
		f, _ := constant.Float64Val(v)
		return fmt.Sprint(f)
	case b.Kind() == types.Complex64:
		re, _ := constant.Float32Val(constant.Real(v))
		im, _ := constant.Float32Val(constant.Imag(v))
		return fmt.Sprint(complex(re, im))
	case b.Info()&types.IsComplex != 0:
		re, _ := constant.Float64Val(constant.Real(v))
		im, _ := constant.Float64Val(constant.Imag(v))
		return fmt.Sprint(complex(re, im))
	}
	return "?"
}

var out bytes.Buffer
var it *interp.Interpreter

func newInterp() {
	out.Reset()
	it = interp.New(interp.Options{Stdout: &out, Stderr: &bytes.Buffer{}})
	it.Use(interp.Exports{"h/h": {"Show": reflect.ValueOf(func(a ...interface{}) {
		for _, x := range a {
			if s, ok := x.(string); ok {
				fmt.Fprintf(&out, "%q %T\n", s, x)
			} else {
				fmt.Fprintf(&out, "%v %T\n", x, x)
			}
		}
	})}})
	if _, err := it.Eval(`import "h"`); err != nil {
		panic(err)
	}
}

type fail struct {
	Case kase   `json:"case"`
	Cat  string `json:"category"`
	Want string `json:"go"`
	Got  string `json:"yaegi"`
}

func runInterp(k kase) (got string, err error) {
	defer func() {
		if r := recover(); r != nil {
			err = fmt.Errorf("HOSTPANIC %v", r)
			newInterp()
		}
	}()
	out.Reset()
	_, err = it.Eval("func() {\n" + k.body() + "\n}()")
	return strings.TrimSpace(out.String()), err
}

func check(k kase) *fail {
	if it == nil {
		newInterp()
	}
	v := goCheck(k)
	par.Count("evaluated", 1)
	got, ierr := runInterp(k)
	switch {
	case !v.ok && ierr != nil:
		par.Count("both_reject", 1)
		if v.demanded {
			par.Count("demanded_rejections_honoured", 1)
		}
	case !v.ok && ierr == nil:
		if !v.demanded {
			par.Count("go_rejects_for_other_reason_not_demanded", 1)
			return nil
		}
		return &fail{k, "GO-REJECTS(" + v.why + ")-YAEGI-ACCEPTS", v.why, got}
	case v.ok && ierr != nil:
		return &fail{k, "GO-ACCEPTS-YAEGI-REJECTS", v.want, first(ierr.Error())}
	default:
		if !v.konst {
			par.Count("accepted_nonconstant_context", 1)
			return nil
		}
		if v.want == got {
			par.Count("agree_value_and_type", 1)
			par.Distinct("values", got)
			return nil
		}
		return &fail{k, "VALUE-OR-TYPE-DIFFERS", v.want, got}
	}
	return nil
}

func first(s string) string {
	if i := strings.IndexByte(s, '\n'); i >= 0 {
		s = s[:i]
	}
	if len(s) > 160 {
		s = s[:160]
	}
	return s
}

func cls(l string) string {
	l = strings.TrimSpace(l)
	switch {
	case l == "true" || l == "false":
		return "bool"
	case strings.HasPrefix(l, "\""):
		return "str"
	case strings.HasPrefix(l, "'"):
		return "rune"
	case strings.HasSuffix(l, "i"):
		return "imag" + magnitude(strings.TrimSuffix(l, "i"))
	case strings.ContainsAny(l, ".e"):
		return "float" + magnitude(l)
	case len(l) >= 20:
		return "int>64bit"
	case len(l) >= 10:
		return "int>31bit"
	}
	return "int"
}

// magnitude classifies a float literal by the smallest float type that holds it.
func magnitude(l string) string {
	v, err := strconv.ParseFloat(l, 64)
	switch {
	case err != nil || math.IsInf(v, 0):
		return ">f64"
	case math.Abs(v) > math.MaxFloat32:
		return ">f32"
	case v != 0 && math.Abs(v) < 1e-45:
		return "<f32"
	}
	return ""
}

var tokRe = regexp.MustCompile(`"[^"]*"|'[^']*'|[0-9][0-9a-z.+-]*|true|false`)

// shape replaces every literal of the expression by its class.
func shape(e string) string {
	return tokRe.ReplaceAllStringFunc(e, func(t string) string { return cls(t) })
}

func huge(e string) bool {
	// a shift count that is itself an expression over large operands (127 << (3.5e38 >> 'a')) is the same resource hazard
	for _, op := range []string{"<< (", ">> ("} {
		if i := strings.Index(e, op); i >= 0 {
			inner := e[i+4:]
			if j := strings.IndexByte(inner, ')'); j >= 0 {
				inner = inner[:j]
			}
			for _, tok := range tokRe.FindAllString(inner, -1) {
				if len(tok) > 3 || strings.ContainsAny(tok, ".e'") {
					return true
				}
			}
		}
	}
	// constant shift counts above 600 are excluded from the alphabet (DESIGN §3 C03 hazard)
	for _, op := range []string{"<< ", ">> "} {
		for i := strings.Index(e, op); i >= 0; {
			rest := strings.TrimLeft(e[i+3:], "( ")
			n := 0
			for n < len(rest) && rest[n] >= '0' && rest[n] <= '9' {
				n++
			}
			if n >= 4 {
				return true
			}
			j := strings.Index(e[i+3:], op)
			if j < 0 {
				break
			}
			i += 3 + j
		}
	}
	return false
}

func cases(thorough bool) []kase {
	var ks []kase
	var exprs1 []string
	exprs1 = append(exprs1, leaves...)
	for _, u := range unops {
		for _, l := range leaves {
			exprs1 = append(exprs1, u+l)
		}
	}
	for _, c := range convs {
		for _, l := range leaves {
			exprs1 = append(exprs1, c+"("+l+")")
		}
	}
	for _, o := range binops {
		for _, a := range leaves {
			for _, b := range leaves {
				exprs1 = append(exprs1, a+" "+o+" "+b)
			}
		}
	}
	for _, e := range exprs1 {
		ks = append(ks, kase{Expr: e, Ctx: "define"})
	}
	// depth 2 over the reduced leaf set: (a op b) op c, a op (b op c), conv(a op b), unop(a op b)
	ops2 := binops
	lv := smallLeaves
	if !thorough {
		ops2 = []string{"+", "-", "*", "/", "<<", "==", "<", "&&", "&"}
		lv = []string{"1", "3", "128", "9223372036854775807", "'a'", "1.5", "2i", `"ab"`, "true"}
	}
	var exprs2 []string
	for _, o1 := range ops2 {
		for _, o2 := range ops2 {
			for _, a := range lv {
				for _, b := range lv {
					for _, c := range lv {
						exprs2 = append(exprs2, "("+a+" "+o1+" "+b+") "+o2+" "+c)
						if thorough {
							exprs2 = append(exprs2, a+" "+o1+" ("+b+" "+o2+" "+c+")")
						}
					}
				}
			}
		}
	}
	for _, o := range ops2 {
		for _, a := range lv {
			for _, b := range lv {
				for _, c := range convs {
					exprs2 = append(exprs2, c+"("+a+" "+o+" "+b+")")
				}
				for _, u := range unops {
					exprs2 = append(exprs2, u+"("+a+" "+o+" "+b+")")
				}
			}
		}
	}
	for _, e := range exprs2 {
		ks = append(ks, kase{Expr: e, Ctx: "define"})
	}
	// other use contexts over depth-<=1 expressions of the reduced operator set
	var ctxExprs []string
	ctxExprs = append(ctxExprs, leaves...)
	for _, l := range leaves {
		ctxExprs = append(ctxExprs, "-"+l)
	}
	for _, o := range []string{"+", "-", "*", "/", "<<", ">>", "%"} {
		for _, a := range smallLeaves {
			for _, b := range smallLeaves {
				ctxExprs = append(ctxExprs, a+" "+o+" "+b)
			}
		}
	}
	ctxs := []string{"const", "var:int8", "var:uint8", "var:int32", "var:int64", "var:uint64", "var:float32", "var:float64", "var:string", "var:complex64", "var:complex128",
		"tconst:int8", "tconst:uint16", "tconst:int64", "tconst:float32", "tconst:rune", "tconst:float64", "tconst:complex64", "opvar:int8", "opvar:uint8", "opvar:int64", "opvar:float32", "opvar:float64", "opvar:complex64", "arraylen"}
	for _, c := range ctxs {
		for _, e := range ctxExprs {
			if c == "arraylen" && (len(e) > 12 || strings.Contains(e, "<<")) {
				continue // keep array lengths small: huge arrays are a resource question, not a constant-semantics one
			}
			ks = append(ks, kase{Expr: e, Ctx: c})
		}
	}
	for _, s := range []string{`""`, `"ab"`, `"héllo"`, `"a" + "bc"`, "[3]int{}", "[0]int{}", "[2][5]int{}[0]"} {
		ks = append(ks, kase{Expr: s, Ctx: "lenstr"})
	}
	// iota blocks: all blocks of <= 3 (thorough: 4) specs over the line templates
	lines := []string{"N = iota", "N", "N int8 = iota * 50", "_", "N, M = iota, iota * 10", "N = 1 << iota", "N = iota + 0.5", "N = (iota + 1) * (iota + 1)", "N = \"s\"", "N uint8 = 255 - iota"}
	maxSpecs := 3
	if thorough {
		maxSpecs = 4
	}
	var blocks func(prefix []int)
	blocks = func(prefix []int) {
		if len(prefix) > 0 {
			var b, show strings.Builder
			b.WriteString("const (\n")
			valid := true
			for i, li := range prefix {
				l := lines[li]
				if i == 0 && (l == "N" || l == "_") {
					valid = false
				}
				l = strings.ReplaceAll(l, "N", fmt.Sprintf("n%d", i))
				l = strings.ReplaceAll(l, "M", fmt.Sprintf("m%d", i))
				b.WriteString(l + "\n")
				if lines[li] != "_" {
					fmt.Fprintf(&show, "h.Show(n%d)\n", i)
				}
				if strings.Contains(lines[li], "M") {
					fmt.Fprintf(&show, "h.Show(m%d)\n", i)
				}
			}
			b.WriteString(")\n")
			if valid {
				var ts []string
				for _, li := range prefix {
					ts = append(ts, fmt.Sprint(li))
				}
				ks = append(ks, kase{b.String() + strings.TrimSpace(show.String()), "iota", strings.Join(ts, ",")})
			}
		}
		if len(prefix) == maxSpecs {
			return
		}
		for li := range lines {
			blocks(append(append([]int{}, prefix...), li))
		}
	}
	blocks(nil)
	var outk []kase
	for _, k := range ks {
		if !huge(k.Expr) {
			outk = append(outk, k)
		}
	}
	return outk
}

func key(f fail) string {
	cat := f.Cat
	if i := strings.Index(cat, "("); i >= 0 {
		// the demanded reason class only
		m := demanded.FindString(cat)
		cat = "GO-REJECTS(" + m + ")-YAEGI-ACCEPTS"
	}
	e := f.Case.Expr
	if f.Case.Ctx == "iota" {
		e = strings.Join(strings.Split(strings.SplitN(e, ")\n", 2)[0], "\n")[1:], "; ")
		return cat + " :: iota{" + e + "}"
	}
	if strings.Contains(e, "(") && strings.Contains(e, " ") && f.Case.Ctx == "define" {
		if k := deepKey(cat, f); k != "" {
			return k
		}
	}
	if f.Case.Ctx != "define" {
		// in a typed context the finding is (category, context, class of E's value), not E's spelling
		return cat + " :: " + valueClass(e) + " :: " + f.Case.Ctx
	}
	return cat + " :: " + shape(e) + " :: " + f.Case.Ctx
}

var numRe = regexp.MustCompile(`[0-9]+(\.[0-9]+)?(e[+-]?[0-9]+)?`)

// deepKey buckets a depth-2 expression by its structure rather than by its literals: outer operator (or
// conversion), which side is compound, inner operator, plus the symptom (normalised interpreter error, or the
// type pair of a differing result).
func deepKey(cat string, f fail) string {
	x, err := parser.ParseExpr(f.Case.Expr)
	if err != nil {
		return ""
	}
	inner := func(e ast.Expr) (string, bool) {
		if p, ok := e.(*ast.ParenExpr); ok {
			if b, ok := p.X.(*ast.BinaryExpr); ok {
				return b.Op.String(), true
			}
		}
		if b, ok := e.(*ast.BinaryExpr); ok {
			return b.Op.String(), true
		}
		return "", false
	}
	var structure string
	switch n := x.(type) {
	case *ast.BinaryExpr:
		if op, ok := inner(n.X); ok {
			structure = "(_ " + op + " _) " + n.Op.String() + " " + cls(exprText(n.Y))
		} else if op, ok := inner(n.Y); ok {
			structure = cls(exprText(n.X)) + " " + n.Op.String() + " (_ " + op + " _)"
		}
	case *ast.CallExpr:
		if len(n.Args) == 1 {
			if op, ok := inner(n.Args[0]); ok {
				structure = exprText(n.Fun) + "(_ " + op + " _)"
			}
		}
	case *ast.UnaryExpr:
		if op, ok := inner(n.X); ok {
			structure = n.Op.String() + "(_ " + op + " _)"
		}
	}
	if structure == "" {
		return ""
	}
	symptom := ""
	switch {
	case strings.HasPrefix(cat, "GO-ACCEPTS"):
		g := f.Got
		if i := strings.LastIndex(g, "panic: "); i >= 0 {
			g = g[i+7:]
		}
		g = regexp.MustCompile(`^[0-9]+:[0-9]+: `).ReplaceAllString(g, "")
		symptom = numRe.ReplaceAllString(g, "N")
	case strings.HasPrefix(cat, "VALUE"):
		wt, gt := lastField(f.Want), lastField(f.Got)
		symptom = wt + "->" + gt
		if strings.TrimSuffix(f.Want, wt) != strings.TrimSuffix(f.Got, gt) {
			symptom += " value"
		}
	}
	return cat + " :: " + structure + " :: " + symptom
}

func lastField(s string) string {
	f := strings.Fields(s)
	if len(f) == 0 {
		return ""
	}
	return f[len(f)-1]
}

func exprText(e ast.Expr) string {
	var b bytes.Buffer
	printer.Fprint(&b, token.NewFileSet(), e)
	return b.String()
}

// valueClass classifies the constant value of e (as go/constant sees it): kind, integrality, sign, magnitude bucket.
func valueClass(e string) string {
	src := "package p\n\nconst c = " + e + "\n"
	fset := token.NewFileSet()
	f, err := parser.ParseFile(fset, "x.go", src, parser.SkipObjectResolution)
	if err != nil {
		return "unparsable"
	}
	info := &types.Info{Defs: map[*ast.Ident]types.Object{}}
	conf := types.Config{Error: func(error) {}}
	conf.Check("p", fset, []*ast.File{f}, info)
	for id, o := range info.Defs {
		if id.Name != "c" || o == nil {
			continue
		}
		c, ok := o.(*types.Const)
		if !ok || c.Val() == nil || c.Val().Kind() == constant.Unknown {
			return "invalid-const"
		}
		v := c.Val()
		switch v.Kind() {
		case constant.Bool:
			return "bool"
		case constant.String:
			return "string"
		case constant.Complex:
			if constant.Sign(constant.Imag(v)) == 0 {
				return "complex-real"
			}
			return "complex"
		}
		tn := typeName(c.Type())
		sign := ""
		if constant.Sign(v) < 0 {
			sign = "neg-"
		}
		iv := constant.ToInt(v)
		if iv.Kind() != constant.Int {
			return tn + ":" + sign + "fractional"
		}
		bits := constant.BitLen(iv)
		b := ">64"
		for _, lim := range []int{7, 8, 15, 16, 31, 32, 63, 64} {
			if bits <= lim {
				b = fmt.Sprintf("<=%dbit", lim)
				break
			}
		}
		return tn + ":" + sign + b
	}
	return "invalid-const"
}

var subRe = regexp.MustCompile(`\(([^()]+)\)`)

// minimalKey attributes a failing case to a failing sub-case of the same run: the same expression in
// the plain context x := E, or its parenthesised sub-expression in that context.
func minimalKey(f fail, failing map[kase]bool, outs map[int]fail, ks []kase) string {
	byCase := func(k kase) (fail, bool) {
		if !failing[k] {
			return fail{}, false
		}
		for _, o := range outs {
			if o.Case == k {
				return o, true
			}
		}
		return fail{}, false
	}
	if f.Case.Ctx == "iota" {
		// minimal failing sub-block: delete one spec at a time while a failing block remains
		byT := map[string]fail{}
		for _, o := range outs {
			if o.Case.Ctx == "iota" {
				byT[o.Case.T] = o
			}
		}
		cur := f
		for {
			ts := strings.Split(cur.Case.T, ",")
			found := false
			for k := range ts {
				sub := strings.Join(append(append([]string{}, ts[:k]...), ts[k+1:]...), ",")
				if g, ok := byT[sub]; ok {
					cur, found = g, true
					break
				}
			}
			if !found {
				return key(cur)
			}
		}
	}
	if f.Case.Ctx == "lenstr" {
		return key(f)
	}
	if m := subRe.FindStringSubmatch(f.Case.Expr); m != nil && strings.Contains(m[1], " ") {
		if g, ok := byCase(kase{Expr: m[1], Ctx: "define"}); ok {
			return key(g)
		}
	}
	if f.Case.Ctx != "define" {
		if g, ok := byCase(kase{Expr: f.Case.Expr, Ctx: "define"}); ok {
			return key(g)
		}
	}
	return key(f)
}

func main() {
	r := report.Start("C03", "model_checking")
	if r.Replay != "" {
		var cs []fail
		if err := report.ReadReplay(r.Replay, &cs); err != nil {
			fmt.Fprintln(os.Stderr, "HARNESS-ERROR:", err)
			os.Exit(3)
		}
		bad := 0
		for _, c := range cs {
			if f := check(c.Case); f != nil {
				bad++
				fmt.Printf("replay: %s in %s: %s\n   go/types: %s\n   yaegi:    %s\n", c.Case.Expr, c.Case.Ctx, f.Cat, f.Want, f.Got)
			} else {
				fmt.Printf("replay: %s in %s: agrees now\n", c.Case.Expr, c.Case.Ctx)
			}
		}
		if bad > 0 {
			fmt.Printf("VIOLATION property=C03 replay=%s\n", r.Replay)
			os.Exit(1)
		}
		os.Exit(0)
	}
	ks := cases(r.Thorough())
	res := par.Map(len(ks), func(i int) *fail { return check(ks[i]) }, par.Opts{CaseTimeout: 10 * 1e9, MemMB: 3000})
	failing := map[kase]bool{}
	for _, f := range res.Outs {
		failing[f.Case] = true
	}
	for _, f := range res.Outs {
		r.Fail(report.Failure{Key: minimalKey(f, failing, res.Outs, ks), What: fmt.Sprintf("%s in context %s: %s: go=%q yaegi=%q", f.Case.Expr, f.Case.Ctx, f.Cat, f.Want, f.Got), Case: f})
	}
	for _, a := range res.Abnormal {
		k := ks[a.Idx]
		f := fail{Case: k, Cat: "INTERPRETER-" + strings.ToUpper(a.Kind)}
		r.Fail(report.Failure{Key: key(f), What: fmt.Sprintf("%s in context %s: interpreter %s", k.Expr, k.Ctx, a.Kind), Case: f})
	}
	n := res.Counts["evaluated"]
	r.Set("evaluations", n)
	r.Set("states", len(res.Sets["values"]))
	r.Set("transitions", n)
	r.Set("traces_validated_against_impl", n)
	r.Set("distinct_nontrivial", len(res.Sets["values"]))
	for k, v := range res.Counts {
		r.Set("n_"+k, v)
	}
	r.Set("exhaustive", len(res.Abnormal) == 0)
	r.Set("rule", "all expression trees of depth <= 1 over 33 boundary literals, 19 binary and 4 unary operators and 17 conversions; depth 2 over a reduced literal/operator set; 21 use contexts (typed var/const, operand of a typed variable, array length, len) over depth <= 1; all iota blocks of <= 3 (thorough 4) specs over 10 line templates; oracle go/types + go/constant; every model answer replayed on the interpreter; states = distinct agreed (value,type) results; constant shift counts > 600 excluded (resource hazard)")
	r.Assumptions = []string{"go/types and go/constant of the installed toolchain are the specification oracle", "rejections are only demanded for overflow / truncation / division by zero / not representable; other go/types rejections are not C03's business"}
	for _, i := range []int{0, len(ks) / 2, len(ks) - 1} {
		r.Sample(ks[i])
	}
	r.Finish()
}
