// C18: the extract tool. For every importable package of the installed standard library, and for
// generated packages exercising every declaration kind (alone and in pairs), the file produced by
// extract.Extractor must type-check, bind exactly the exported non-generic package-level objects under
// their own names (variables by address, untyped constants with exactly their value) and define a
// forwarding wrapper with the right parameter / variadic / result lists for every exported interface.
package main

import (
	"bytes"
	"fmt"
	"go/build"
	"os"
	"os/exec"
	"path/filepath"
	"regexp"
	"runtime"
	"sort"
	"strings"

	"github.com/traefik/yaegi/extract"
	"verif/engine/par"
	"verif/engine/report"
	"verif/engine/tablecheck"
)

type snippet struct {
	Name    string
	Imports string
	Decl    string
	Core    bool
}

var snippets = []snippet{
	{"const-int", "", "const CInt = 42", true},
	{"const-big", "", "const CBig = 1 << 100", true},
	{"const-neg", "", "const CNeg = -5", false},
	{"const-float", "", "const CFloat = 0.1", true},
	{"const-float-many-digits", "", "const CFloatMany = 3.14159265358979323846264338327950288419716939937510582097494459", false},
	{"const-float-huge", "", "const CHuge = 1e1000", false},
	{"const-float-dyadic", "", "const CDyadic = 0.375", false},
	{"const-rune", "", "const CRune = 'x'", true},
	{"const-string-escaped", "", "const CStr = \"a\\\"b\\n\\x00é\"", true},
	{"const-bool", "", "const CBool = true", false},
	{"const-complex", "", "const CCplx = 1 + 2i", false},
	{"const-typed-int8", "", "const CTyped int8 = 7", false},
	{"const-typed-named", "", "type MyS string\n\nconst CTypedStr MyS = \"s\"", false},
	{"const-iota", "", "const (\n\tK0 = iota * 10\n\tK1\n\tK2\n)", false},
	{"const-maxuint64", "", "const CMaxU = 18446744073709551615", false},
	{"var-int", "", "var V int", true},
	{"var-slice", "", "var VS = []string{\"a\"}", false},
	{"var-func", "", "var VF func(int) string", false},
	{"var-unexported-and-exported", "", "var v, W2 = 1, 2", false},
	{"func-noargs", "", "func F0() {}", true},
	{"func-named", "", "func F1(a int, b string) (int, error) { return a, nil }", false},
	{"func-unnamed", "", "func FU(int, string) bool { return true }", false},
	{"func-blank", "", "func FB(_ int, _ string) {}", false},
	{"func-variadic", "", "func FV(a int, rest ...string) int { return a }", true},
	{"func-named-results", "", "func FN() (x, y int) { return }", false},
	{"func-3-results", "", "func F3() (int, string, error) { return 0, \"\", nil }", false},
	{"generic-func", "", "func G[T any](x T) T { return x }", true},
	{"generic-type", "", "type GT[T any] struct{ X T }\n\nfunc (g GT[T]) Get() T { return g.X }", false},
	{"constraint-interface", "", "type Num interface{ ~int | ~float64 }", false},
	{"struct", "", "type S struct {\n\tA int\n\tb string\n}\n\nfunc (s S) M() int { return s.A }", true},
	{"alias", "", "type SA struct{ A int }\n\ntype A = SA", false},
	{"named-basic", "", "type D int64\n\nfunc (d D) String() string { return \"d\" }", false},
	{"iface-empty", "", "type I0 interface{}", false},
	{"iface-one", "", "type I1 interface{ M(a int) string }", true},
	{"iface-embedded", "", "type IE1 interface{ M(a int) string }\n\ntype I2 interface {\n\tIE1\n\tN()\n}", false},
	{"iface-unexported-method", "", "type IU interface {\n\tM()\n\tunexported()\n}", false},
	{"iface-variadic", "", "type IV interface{ V(a int, rest ...string) }", true},
	{"iface-blank-params", "", "type IB interface{ B(_ int, _ string) int }", true},
	{"iface-unnamed-params", "", "type IN interface{ U(int, string) (int, error) }", false},
	{"iface-param-named-W", "", "type IW interface{ W(W int) int }", true},
	{"iface-stringer", "", "type IS interface{ String() string }", false},
	{"iface-named-results", "", "type INR interface{ R() (n int, err error) }", false},
	{"iface-func-params", "", "type IF interface{ F(f func(int) string) func() error }", false},
	{"iface-imported-types", "import (\n\t\"io\"\n\t\"io/fs\"\n\t\"time\"\n)", "type IX interface {\n\tX(r io.Reader, t time.Time) (fs.FileInfo, error)\n}", false},
	{"iface-two-packages-same-name", "import (\n\thtemplate \"html/template\"\n\tttemplate \"text/template\"\n)", "type IT interface {\n\tT(a *ttemplate.Template, b *htemplate.Template)\n}", false},
	{"iface-embeds-stdlib", "import \"io\"", "type IRW interface {\n\tio.Reader\n\tFlush() error\n}", false},
	{"iface-embeds-third-package", "import \"io/fs\"", "type IFI interface {\n\tfs.FileInfo\n\tExtra() int\n}", true},
	{"iface-embeds-third-package-2", "import \"net\"", "type IC interface {\n\tnet.Conn\n\tID() string\n}", false},
	{"iface-alias-third-package", "import \"io/fs\"", "type AFI = fs.FileInfo\n\ntype ADE = fs.DirEntry", false},
	{"iface-embeds-two-levels", "import \"net/http\"", "type IRT interface {\n\thttp.RoundTripper\n\thttp.Handler\n}", false},
	{"iface-string-other-signature", "", "type ISo interface{ String(n int) int }", false},
	{"constraint-with-method", "", "type NumS interface {\n\t~int | ~int64\n\tString() string\n}", false},
	{"iface-any-embedded", "", "type IAny interface{ any }", false},
	{"iface-unexported-type-in-method", "", "type hidden struct{}\n\ntype IH interface{ H(h hidden) int }", false},
	{"iface-map-chan-params", "", "type IM interface{ M(m map[string][]int, c chan<- bool, a [3]byte) <-chan int }", false},
}

type kase struct {
	Kind string `json:"kind"` // std | gen
	Pkg  string `json:"package"`
	Desc string `json:"desc"`
	Src  string `json:"src,omitempty"`
}

type fail struct {
	K        kase                 `json:"case"`
	Err      string               `json:"err,omitempty"`
	Problems []tablecheck.Problem `json:"problems,omitempty"`
	Out      string               `json:"generated,omitempty"`
}

var restrictedRe = regexp.MustCompile(`undefined: (osExit|osFindProcess|logFatal|logFatalf|logFatalln|logLogger|logNew)\b`)

func gopath() string { return filepath.Join(report.Root, ".work", "c18", "gp") }

func one(k kase) *fail {
	par.Count("packages", 1)
	var buf bytes.Buffer
	ext := extract.Extractor{Dest: "extracted"}
	done := make(chan error, 1)
	go func() {
		defer func() {
			if r := recover(); r != nil {
				done <- fmt.Errorf("extract panicked: %v", r)
			}
		}()
		_, err := ext.Extract(k.Pkg, "", &buf)
		done <- err
	}()
	if err := <-done; err != nil {
		return &fail{K: k, Err: "extract failed: " + err.Error()}
	}
	dir := filepath.Join(report.Root, ".work", "c18", fmt.Sprint("out", os.Getpid()))
	os.MkdirAll(dir, 0o755)
	out := filepath.Join(dir, "go1_23_x.go")
	if err := os.WriteFile(out, buf.Bytes(), 0o644); err != nil {
		return &fail{K: k, Err: "HARNESS: " + err.Error()}
	}
	imp := tablecheck.NewImporter(runtime.GOOS, runtime.GOARCH)
	imp.SetGOPATH(gopath())
	imp.SetCgo(build.Default.CgoEnabled)
	f := &fail{K: k}
	if err := tablecheck.TypeCheck(out, imp); err != nil {
		if !((k.Pkg == "os" || k.Pkg == "log") && restrictedRe.MatchString(err.Error())) {
			f.Problems = append(f.Problems, tablecheck.Problem{Pkg: k.Pkg, Kind: "compile", What: "generated file does not type-check: " + trimPath(err.Error())})
		}
	}
	res := tablecheck.CheckFile(tablecheck.TableFile{Path: out, Dir: "extracted", GOOS: runtime.GOOS, GOARCH: runtime.GOARCH, Completeness: "scope", NoReplacements: !(k.Pkg == "os" || k.Pkg == "log")}, imp)
	f.Problems = append(f.Problems, res.Problems...)
	for _, p := range res.Floats {
		p.Kind = "rounded-float"
		f.Problems = append(f.Problems, p)
	}
	par.Count("entries", int64(res.Counts["entries"]))
	par.Count("wrappers", int64(res.Counts["wrappers"]))
	par.Count("wrapper_methods", int64(res.Counts["wrapper_methods"]))
	par.Count("consts", int64(res.Counts["consts"]))
	if res.Counts["entries"] > 0 {
		par.Count("nontrivial_packages", 1)
	}
	if len(f.Problems) == 0 {
		return nil
	}
	if k.Kind == "gen" {
		f.Out = buf.String()
	}
	return f
}

func trimPath(s string) string {
	if i := strings.Index(s, "go1_23_x.go:"); i >= 0 {
		s = s[i+len("go1_23_x.go:"):]
	}
	return s
}

func stdPackages() []string {
	cmd := exec.Command("go", "list", "std")
	cmd.Env = append(os.Environ(), "GOFLAGS=", "GO111MODULE=off")
	b, err := cmd.Output()
	if err != nil {
		fmt.Fprintln(os.Stderr, "HARNESS-ERROR: go list std:", err)
		os.Exit(3)
	}
	var out []string
	for _, p := range strings.Fields(string(b)) {
		if strings.HasPrefix(p, "vendor/") || strings.Contains(p, "internal") || p == "unsafe" || p == "builtin" {
			continue
		}
		out = append(out, p)
	}
	sort.Strings(out)
	return out
}

// sweepSnippets: untyped constants whose exact value is long or large - string lengths across every printing
// threshold (plain, escaped, multi-byte, raw), integers of 1..120 digits of both signs, floats with huge and tiny
// exponents and long mantissas, runes and complex numbers. Each is extracted alone.
func sweepSnippets() []snippet {
	var out []snippet
	add := func(name, decl string) { out = append(out, snippet{Name: "sweep " + name, Decl: decl}) }
	for _, n := range []int{0, 1, 15, 16, 17, 31, 32, 33, 63, 64, 65, 69, 70, 71, 72, 73, 80, 100, 127, 128, 129, 255, 256, 257, 1000, 5000} {
		add(fmt.Sprintf("string len=%d", n), fmt.Sprintf("const SPlain%d = %q", n, strings.Repeat("abcdefghij", n/10+1)[:n]))
	}
	for _, n := range []int{10, 30, 35, 36, 40, 70, 80, 200} {
		add(fmt.Sprintf("string escapes runes=%d", n), fmt.Sprintf("const SEsc%d = %q", n, strings.Repeat("\n\"\\\t", n/4+1)[:n]))
		add(fmt.Sprintf("string multibyte runes=%d", n), fmt.Sprintf("const SUni%d = %q", n, strings.Repeat("é世", n/2)))
		add(fmt.Sprintf("string raw runes=%d", n), fmt.Sprintf("const SRaw%d = `%s`", n, strings.Repeat("a\"\\n", n/4+1)))
	}
	add("string typed long", fmt.Sprintf("const STyped string = %q", strings.Repeat("x", 300)))
	add("string concatenation long", fmt.Sprintf("const SCat = %q + %q", strings.Repeat("l", 50), strings.Repeat("r", 50)))
	for _, n := range []int{1, 9, 10, 18, 19, 20, 21, 38, 39, 40, 77, 78, 100, 120} {
		d := strings.Repeat("9876543210", n/10+1)[:n]
		if d[0] == '0' {
			d = "1" + d[1:]
		}
		add(fmt.Sprintf("int digits=%d", n), fmt.Sprintf("const IPos%d = %s", n, d))
		add(fmt.Sprintf("negative int digits=%d", n), fmt.Sprintf("const INeg%d = -%s", n, d))
	}
	for _, e := range []string{"1e19", "1e20", "1e38", "1e39", "1e100", "1e308", "1e309", "1e4000", "1e-5", "1e-45", "1e-324", "1e-400", "0.5e-1000", "123456789.125", "0x1p-1074", "0x1.fffffffffffffp1023", "1.0000000000000000000000000000000000001", "4.940656458412465441765687928682213723651e-324"} {
		id := strings.NewReplacer(".", "_", "-", "m", "+", "p").Replace(e)
		add("float "+e, fmt.Sprintf("const F%s = %s", id, e))
		add("negative float "+e, fmt.Sprintf("const FN%s = -%s", id, e))
	}
	for n, r := range []string{"'\\x00'", "'\\n'", "'\\''", "'é'", "'世'", "'\\U0010FFFF'", "'a' + 1", "'a' * 1000"} {
		add("rune "+r, fmt.Sprintf("const R%d = %s", n, r))
	}
	for n, c := range []string{"1i", "0.5 + 0.25i", "1e100 + 1e-100i", "-2.5i", "1 << 70 + 3i"} {
		add("complex "+c, fmt.Sprintf("const C%d = %s", n, c))
	}
	return out
}

func genCases(thorough bool) []kase {
	var ks []kase
	mk := func(desc string, sn ...snippet) {
		var imports, decls []string
		seenImp := map[string]bool{}
		for _, s := range sn {
			// merge import specs (one per line), dropping duplicates
			for _, l := range strings.Split(s.Imports, "\n") {
				l = strings.TrimSpace(strings.TrimPrefix(strings.TrimSpace(l), "import"))
				if l == "" || l == "(" || l == ")" || seenImp[l] {
					continue
				}
				seenImp[l] = true
				imports = append(imports, "import "+l)
			}
			decls = append(decls, s.Decl)
		}
		n := len(ks)
		pkg := fmt.Sprintf("gen/p%04d", n)
		src := fmt.Sprintf("package p%04d\n\n%s\n\n%s\n", n, strings.Join(imports, "\n"), strings.Join(decls, "\n\n"))
		ks = append(ks, kase{Kind: "gen", Pkg: pkg, Desc: desc, Src: src})
	}
	for _, s := range snippets {
		mk(s.Name, s)
	}
	for _, s := range sweepSnippets() {
		mk(s.Name, s)
	}
	for i, a := range snippets {
		for j, b := range snippets {
			if j <= i || (!thorough && !(a.Core && b.Core)) {
				continue
			}
			mk(a.Name+" + "+b.Name, a, b)
		}
	}
	return ks
}

func main() {
	r := report.Start("C18", "exploration")
	work := filepath.Join(report.Root, ".work", "c18")
	var ks []kase
	for _, p := range stdPackages() {
		ks = append(ks, kase{Kind: "std", Pkg: p, Desc: p})
	}
	nStd := len(ks)
	ks = append(ks, genCases(r.Thorough())...)
	if r.Replay != "" {
		fmt.Println("replay: re-run ./check C18 (the failing package and the generated text are recorded in the replay file)")
		os.Exit(0)
	}
	if !par.IsWorker() {
		os.RemoveAll(work)
		for _, k := range ks {
			if k.Kind == "gen" {
				d := filepath.Join(gopath(), "src", filepath.FromSlash(k.Pkg))
				os.MkdirAll(d, 0o755)
				if err := os.WriteFile(filepath.Join(d, "p.go"), []byte(k.Src), 0o644); err != nil {
					r.HarnessError("%v", err)
				}
			}
		}
		defer os.RemoveAll(work)
	}
	res := par.Map(len(ks), func(i int) *fail { return one(ks[i]) }, par.Opts{CaseTimeout: 180 * 1e9, MemMB: -1, Env: []string{"GO111MODULE=off", "GOPATH=" + gopath(), "GOFLAGS="}})
	os.RemoveAll(work)
	for _, f := range res.Outs {
		if strings.HasPrefix(f.Err, "HARNESS") {
			r.HarnessError("%s", f.Err)
			continue
		}
		if f.Err != "" {
			r.Fail(report.Failure{Key: f.K.Kind + " " + f.K.Desc + " | extract error", What: f.K.Desc + ": " + f.Err, Case: f})
			continue
		}
		// one finding per (kind of problem, object); generated packages are keyed by declaration kind, not package number
		seen := map[string]bool{}
		for _, p := range f.Problems {
			var key string
			if f.K.Kind == "std" {
				key = fmt.Sprintf("std %s.%s [%s]", p.Pkg, p.Name, p.Kind)
				if p.Kind == "compile" {
					key = fmt.Sprintf("std %s [compile] %s", f.K.Pkg, firstWords(regexp.MustCompile(`[0-9]+:[0-9]+: `).ReplaceAllString(p.What, ""), 12))
				}
			} else {
				key = fmt.Sprintf("gen %s [%s] %s", p.Name, p.Kind, firstWords(p.What, 10))
				if p.Kind == "compile" {
					key = fmt.Sprintf("gen [compile] %s", firstWords(regexp.MustCompile(`p[0-9]{4}|[0-9]+:[0-9]+: `).ReplaceAllString(p.What, ""), 14))
				}
			}
			if seen[key] {
				continue
			}
			seen[key] = true
			r.Fail(report.Failure{Key: key, What: f.K.Desc + ": " + p.Pkg + "." + p.Name + ": " + p.What, Case: f})
		}
	}
	for _, a := range res.Abnormal {
		r.Fail(report.Failure{Key: ks[a.Idx].Kind + " " + ks[a.Idx].Desc + " | " + a.Kind, What: ks[a.Idx].Desc + ": extract " + a.Kind, Case: fail{K: ks[a.Idx], Err: a.Kind}})
	}
	r.Set("evaluations", res.Counts["packages"])
	r.Set("std_packages", nStd)
	r.Set("generated_packages", len(ks)-nStd)
	r.Set("entries_checked", res.Counts["entries"])
	r.Set("untyped_constants_compared_exactly", res.Counts["consts"])
	r.Set("wrappers_checked", res.Counts["wrappers"])
	r.Set("wrapper_methods_checked", res.Counts["wrapper_methods"])
	r.Set("distinct_nontrivial", res.Counts["nontrivial_packages"])
	r.Set("exhaustive", len(res.Abnormal) == 0)
	r.Set("rule", "every non-internal package of `go list std` + generated packages: each of 55 declaration snippets alone and in pairs (quick: pairs of the core snippets) + a sweep of untyped constants extracted alone (string lengths 0..5000 across the printing thresholds in plain / escaped / multi-byte / raw form, integers of 1..120 digits of both signs, floats with extreme exponents and long mantissas, runes, complex); non-trivial = packages for which extract produced at least one binding; each generated file is type-checked and every entry / wrapper / the key set is compared with the go/types package of the input")
	r.Assumptions = []string{"go/types package of the input (source importer) is the reference", "os and log: the 7 documented restricted replacements are emitted by extract by design and are accepted"}
	r.Sample(ks[0])
	r.Sample(ks[nStd])
	r.Sample(ks[len(ks)-1])
	r.Finish()
}

func firstWords(s string, n int) string {
	f := strings.Fields(s)
	if len(f) > n {
		f = f[:n]
	}
	return strings.Join(f, " ")
}
