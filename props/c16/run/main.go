// C16: import resolution over directory trees. Trees (GOPATH/src with vendor directories at several
// levels, the same import path present in several places, repeated path elements, diamonds, cycles,
// relative imports) are enumerated; the reference model is the vendoring rule of the statement (nearest
// enclosing vendor directory, else GOPATH/src; relative = importing file's directory; each package once;
// cycles are errors); every tree is evaluated on a real directory and on fstest.MapFS through the three
// entry modes of the API. Every package's init prints its own directory.
package main

import (
	"bytes"
	"fmt"
	"os"
	"path"
	"path/filepath"
	"regexp"
	"sort"
	"strings"
	"testing/fstest"

	"github.com/traefik/yaegi/interp"
	"verif/engine/par"
	"verif/engine/report"
	"verif/engine/twin/h"
)

type pkg struct {
	Dir     string   `json:"dir"`     // relative to GOPATH/src
	Name    string   `json:"name"`    // package name
	Imports []string `json:"imports"` // import paths as written
}

type tree struct {
	Name  string `json:"name"`
	Pkgs  []pkg  `json:"packages"`
	Main  string `json:"main"`  // dir of the entry package
	Cycle bool   `json:"cycle"` // an import cycle: an error is expected
}

func (t tree) find(dir string) *pkg {
	for i := range t.Pkgs {
		if t.Pkgs[i].Dir == dir {
			return &t.Pkgs[i]
		}
	}
	return nil
}

// resolve is the reference model: where does import path p written in a file of directory dir lead?
func (t tree) resolve(dir, p string) (string, bool) {
	if strings.HasPrefix(p, "./") || strings.HasPrefix(p, "../") {
		d := path.Join(dir, p)
		return d, t.find(d) != nil
	}
	for d := dir; ; d = path.Dir(d) {
		cand := path.Join(d, "vendor", p)
		if d == "." {
			cand = path.Join("vendor", p)
		}
		if t.find(cand) != nil {
			return cand, true
		}
		if d == "." || d == "/" {
			break
		}
	}
	return p, t.find(p) != nil
}

// expected log: depth-first initialisation, imports in source order, every directory once.
func (t tree) expected() (string, bool) {
	var log []string
	done := map[string]bool{}
	ok := true
	var visit func(dir string)
	visit = func(dir string) {
		if done[dir] {
			return
		}
		done[dir] = true
		p := t.find(dir)
		for _, ip := range p.Imports {
			d, found := t.resolve(dir, ip)
			if !found {
				ok = false
				continue
			}
			visit(d)
		}
		log = append(log, "init "+dir)
	}
	visit(t.Main)
	return strings.Join(log, "\n") + "\n", ok
}

func (t tree) files(mainIsMain bool) map[string]string {
	fs := map[string]string{}
	for _, p := range t.Pkgs {
		name := p.Name
		var b strings.Builder
		isMain := p.Dir == t.Main && mainIsMain
		if isMain {
			name = "main"
		}
		b.WriteString("package " + name + "\n\nimport (\n\t. \"verif/engine/twin/h\"\n")
		for i, ip := range p.Imports {
			fmt.Fprintf(&b, "\tp%d \"%s\"\n", i, ip)
		}
		b.WriteString(")\n\nvar X = 1\n\n")
		for i := range p.Imports {
			fmt.Fprintf(&b, "var _ = p%d.X\n\n", i)
		}
		fmt.Fprintf(&b, "func init() { Show(\"init %s\") }\n", p.Dir)
		if isMain {
			b.WriteString("\nfunc main() {}\n")
		}
		fs[path.Join(p.Dir, "f.go")] = b.String()
	}
	return fs
}

type run struct {
	T     tree   `json:"tree"`
	Entry string `json:"entry"` // import | dir | file
	FS    string `json:"fs"`    // disk | mapfs
}

type fail struct {
	R    run    `json:"run"`
	Want string `json:"model"`
	Got  string `json:"interpreter"`
	Err  string `json:"err"`
}

var scratch string

func exec(r run) (out string, err error) {
	var buf bytes.Buffer
	steps := 0
	defer func() {
		if rec := recover(); rec != nil {
			err = fmt.Errorf("HOSTPANIC: %v", rec)
			out = buf.String()
		}
	}()
	files := r.T.files(r.Entry != "import" && !strings.HasPrefix(r.Entry, "import-retry"))
	opts := interp.Options{Stdout: &buf, Stderr: &bytes.Buffer{}}
	if r.FS == "disk" {
		os.RemoveAll(filepath.Join(scratch, "gp"))
		for p, s := range files {
			full := filepath.Join(scratch, "gp", "src", filepath.FromSlash(p))
			os.MkdirAll(filepath.Dir(full), 0o755)
			if e := os.WriteFile(full, []byte(s), 0o644); e != nil {
				return "", fmt.Errorf("HARNESS: %v", e)
			}
		}
		opts.GoPath = filepath.Join(scratch, "gp")
	} else {
		mfs := fstest.MapFS{}
		for p, s := range files {
			mfs["gp/src/"+p] = &fstest.MapFile{Data: []byte(s)}
		}
		opts.GoPath = "./gp"
		opts.SourcecodeFilesystem = mfs
	}
	i := interp.New(opts)
	i.Use(h.Exports(&buf, &steps))
	switch r.Entry {
	case "import-retry", "import-retry-file", "import-retry-nogo", "import-retry-syntax":
		// first attempt with the last package broken (sources missing / a regular file where its directory should be / a
		// directory without Go files / a file that does not parse): it fails; then the package is put in place and the same
		// interpreter imports again: a failed import must not poison later ones (no false "import cycle")
		lastDir := ""
		for _, pk := range r.T.Pkgs {
			if pk.Dir != r.T.Main {
				lastDir = pk.Dir
			}
		}
		var remove func(rel string)
		var write func(rel, content string)
		if r.FS == "disk" {
			remove = func(rel string) { os.RemoveAll(filepath.Join(scratch, "gp", "src", filepath.FromSlash(rel))) }
			write = func(rel, content string) {
				full := filepath.Join(scratch, "gp", "src", filepath.FromSlash(rel))
				os.MkdirAll(filepath.Dir(full), 0o755)
				os.WriteFile(full, []byte(content), 0o644)
			}
		} else {
			mfs := opts.SourcecodeFilesystem.(fstest.MapFS)
			remove = func(rel string) {
				for p := range mfs {
					if p == "gp/src/"+rel || strings.HasPrefix(p, "gp/src/"+rel+"/") {
						delete(mfs, p)
					}
				}
			}
			write = func(rel, content string) { mfs["gp/src/"+rel] = &fstest.MapFile{Data: []byte(content)} }
		}
		remove(lastDir)
		switch r.Entry {
		case "import-retry-file":
			write(lastDir, "not a directory\n")
		case "import-retry-nogo":
			write(lastDir+"/README.txt", "no Go files here\n")
		case "import-retry-syntax":
			write(lastDir+"/f.go", "package "+last(lastDir)+"\n\nfunc {\n")
		}
		if _, e := i.Eval(fmt.Sprintf("import %q", r.T.Main)); e == nil {
			return buf.String(), fmt.Errorf("HARNESS: the import succeeded although %s is broken (%s)", lastDir, r.Entry)
		}
		buf.Reset()
		remove(lastDir)
		for p, src := range files {
			if strings.HasPrefix(p, lastDir+"/") {
				write(p, src)
			}
		}
		_, err = i.Eval(fmt.Sprintf("import %q", r.T.Main))
	case "import":
		_, err = i.Eval(fmt.Sprintf("import %q", r.T.Main))
	case "dir":
		_, err = i.EvalPath("./gp/src/" + r.T.Main)
	case "file":
		_, err = i.EvalPath("gp/src/" + r.T.Main + "/f.go")
	}
	return buf.String(), err
}

func one(r run) *fail {
	want, resolvable := r.T.expected()
	got, err := exec(r)
	par.Count("runs", 1)
	par.Distinct("logs", want)
	if err != nil && strings.HasPrefix(err.Error(), "HARNESS") {
		return &fail{R: r, Err: err.Error()}
	}
	switch {
	case r.T.Cycle:
		par.Count("cycle_runs", 1)
		if err != nil && !strings.Contains(err.Error(), "HOSTPANIC") {
			return nil // reported as an error: what the statement asks
		}
		return &fail{R: r, Want: "an error (import cycle)", Got: got, Err: fmt.Sprint(err)}
	case !resolvable:
		par.Count("unresolvable_runs", 1)
		if err != nil && !strings.Contains(err.Error(), "HOSTPANIC") {
			return nil
		}
		return &fail{R: r, Want: "an error (package not found)", Got: got, Err: fmt.Sprint(err)}
	}
	if err == nil && got == want {
		return nil
	}
	f := &fail{R: r, Want: want, Got: got}
	if err != nil {
		f.Err = strings.SplitN(err.Error(), "\n", 2)[0]
	}
	return f
}

// ---------- enumeration ----------

func last(p string) string { return p[strings.LastIndex(p, "/")+1:] }

// vendorPlaces lists the candidate directories where import path p may live for an importer in dir (nearest first).
func vendorPlaces(dir, p string) []string {
	var out []string
	for d := dir; ; d = path.Dir(d) {
		if d == "." {
			out = append(out, path.Join("vendor", p))
			break
		}
		out = append(out, path.Join(d, "vendor", p))
	}
	return append(out, p)
}

func trees(thorough bool) []tree {
	var ts []tree
	mains := []string{"m", "x/m", "x/y/m"}
	// "q/m" and "x/q/m" end with the last element of every entry directory; "y/m" also shares its parent with x/y/m
	paths := []string{"a", "x/a", "a/a", "x/y/a", "x/x", "q/m", "x/q/m", "y/m"}
	// F1: one import, present in every subset of its candidate places
	for _, m := range mains {
		for _, p := range paths {
			places := vendorPlaces(m, p)
			for mask := 0; mask < 1<<len(places); mask++ {
				t := tree{Name: fmt.Sprintf("F1 main=%s import=%s present=%0*b", m, p, len(places), mask), Main: m}
				t.Pkgs = append(t.Pkgs, pkg{Dir: m, Name: last(m), Imports: []string{p}})
				for k, pl := range places {
					if mask&(1<<k) != 0 && pl != m {
						t.Pkgs = append(t.Pkgs, pkg{Dir: pl, Name: last(p)})
					}
				}
				ts = append(ts, t)
			}
		}
	}
	// F2: transitive import from a (vendored) package: a is at one place, b in every subset of the places seen from a
	for _, m := range []string{"x/m"} {
		for _, aPlace := range vendorPlaces(m, "a") {
			bPlaces := vendorPlaces(aPlace, "b")
			if !thorough && len(bPlaces) > 4 {
				bPlaces = append(bPlaces[:3], bPlaces[len(bPlaces)-1])
			}
			for mask := 1; mask < 1<<len(bPlaces); mask++ {
				t := tree{Name: fmt.Sprintf("F2 main=%s a@%s b-present=%0*b", m, aPlace, len(bPlaces), mask), Main: m}
				t.Pkgs = append(t.Pkgs, pkg{Dir: m, Name: "m", Imports: []string{"a"}}, pkg{Dir: aPlace, Name: "a", Imports: []string{"b"}})
				for k, pl := range bPlaces {
					if mask&(1<<k) != 0 {
						t.Pkgs = append(t.Pkgs, pkg{Dir: pl, Name: "b"})
					}
				}
				ts = append(ts, t)
			}
		}
	}
	// F5: like F2, but the transitively imported path ends with the last element of the importer's own directory
	// (a imports q/a) or repeats its parent (x/a imports x/q/a)
	for _, m := range []string{"x/m"} {
		for _, aPlace := range vendorPlaces(m, "a") {
			for _, b := range []string{"q/a", "a/q/a"} {
				bPlaces := vendorPlaces(aPlace, b)
				if !thorough && len(bPlaces) > 4 {
					bPlaces = append(bPlaces[:3], bPlaces[len(bPlaces)-1])
				}
				for mask := 1; mask < 1<<len(bPlaces); mask++ {
					t := tree{Name: fmt.Sprintf("F5 main=%s a@%s imports=%s present=%0*b", m, aPlace, b, len(bPlaces), mask), Main: m}
					t.Pkgs = append(t.Pkgs, pkg{Dir: m, Name: "m", Imports: []string{"a"}}, pkg{Dir: aPlace, Name: "a", Imports: []string{b}})
					ok := true
					for k, pl := range bPlaces {
						if mask&(1<<k) != 0 {
							if pl == aPlace || pl == m {
								ok = false
							}
							t.Pkgs = append(t.Pkgs, pkg{Dir: pl, Name: "a"})
						}
					}
					if ok {
						ts = append(ts, t)
					}
				}
			}
		}
	}
	// F3: import graphs, every package once
	graphs := []struct {
		name  string
		edges map[string][]string
		cycle bool
	}{
		{"chain", map[string][]string{"m": {"a"}, "a": {"b"}, "b": {"c"}, "c": nil}, false},
		{"diamond", map[string][]string{"m": {"a", "b"}, "a": {"c"}, "b": {"c"}, "c": nil}, false},
		{"fan-in", map[string][]string{"m": {"a", "b", "c"}, "a": {"c"}, "b": {"c", "a"}, "c": nil}, false},
		{"double-diamond", map[string][]string{"m": {"a", "b"}, "a": {"c", "d"}, "b": {"d", "c"}, "c": {"e"}, "d": {"e"}, "e": nil}, false},
		{"same-import-twice", map[string][]string{"m": {"a", "a"}, "a": nil}, false},
		{"self-cycle", map[string][]string{"m": {"a"}, "a": {"a"}}, true},
		{"2-cycle", map[string][]string{"m": {"a"}, "a": {"b"}, "b": {"a"}}, true},
		{"3-cycle", map[string][]string{"m": {"a"}, "a": {"b"}, "b": {"c"}, "c": {"a"}}, true},
		{"cycle-through-main", map[string][]string{"m": {"a"}, "a": {"m"}}, true},
	}
	for _, g := range graphs {
		for _, prefix := range []string{"", "x/"} {
			t := tree{Name: "F3 " + g.name + " prefix=" + prefix, Main: prefix + "m", Cycle: g.cycle}
			var names []string
			for n := range g.edges {
				names = append(names, n)
			}
			sort.Strings(names)
			for _, n := range names {
				var imps []string
				for _, e := range g.edges[n] {
					imps = append(imps, prefix+e)
				}
				t.Pkgs = append(t.Pkgs, pkg{Dir: prefix + n, Name: n, Imports: imps})
			}
			ts = append(ts, t)
		}
	}
	// F4: relative imports from the entry package
	for _, m := range []string{"m", "x/m"} {
		for _, rel := range [][]string{{"./p"}, {"../q"}, {"./p", "../q"}, {"./p/r"}, {"./p", "a"}} {
			t := tree{Name: fmt.Sprintf("F4 main=%s relative=%s", m, strings.Join(rel, ",")), Main: m}
			t.Pkgs = append(t.Pkgs, pkg{Dir: m, Name: "m", Imports: rel})
			for _, r := range rel {
				d := r
				if strings.HasPrefix(r, ".") {
					d = path.Join(m, r)
				}
				if d == ".." || strings.HasPrefix(d, "../") {
					t.Pkgs = nil
					break
				}
				t.Pkgs = append(t.Pkgs, pkg{Dir: d, Name: last(d)})
			}
			if t.Pkgs != nil {
				// a decoy of the same name in GOPATH/src must not be chosen for a relative import
				for _, r := range rel {
					if strings.HasPrefix(r, "./") && t.find(strings.TrimPrefix(r, "./")) == nil {
						t.Pkgs = append(t.Pkgs, pkg{Dir: strings.TrimPrefix(r, "./"), Name: last(r)})
					}
				}
				ts = append(ts, t)
			}
		}
	}
	return ts
}

func main() {
	r := report.Start("C16", "model_checking")
	root := report.Root
	if par.IsWorker() {
		scratch = filepath.Join(root, ".work", "c16", fmt.Sprint("w", os.Getpid()))
		os.MkdirAll(scratch, 0o755)
		os.Chdir(scratch)
	} else {
		defer os.RemoveAll(filepath.Join(root, ".work", "c16"))
	}
	if r.Replay != "" {
		scratch = filepath.Join(root, ".work", "c16", "replay")
		os.MkdirAll(scratch, 0o755)
		os.Chdir(scratch)
		var cs []fail
		if err := report.ReadReplay(r.Replay, &cs); err != nil {
			fmt.Fprintln(os.Stderr, "HARNESS-ERROR:", err)
			os.Exit(3)
		}
		bad := 0
		for _, c := range cs {
			if f := one(c.R); f != nil {
				bad++
				fmt.Printf("replay %s entry=%s fs=%s\n model: %q\n yaegi: %q err=%s\n", c.R.T.Name, c.R.Entry, c.R.FS, f.Want, f.Got, f.Err)
				for p, s := range c.R.T.files(c.R.Entry != "import") {
					fmt.Printf("--- gp/src/%s ---\n%s\n", p, s)
				}
			} else {
				fmt.Println("replay: agrees now:", c.R.T.Name)
			}
		}
		os.RemoveAll(filepath.Join(root, ".work", "c16"))
		if bad > 0 {
			fmt.Printf("VIOLATION property=C16 replay=%s\n", r.Replay)
			os.Exit(1)
		}
		os.Exit(0)
	}
	var runs []run
	for _, t := range trees(true) {
		for _, e := range []string{"import", "dir", "file"} {
			for _, f := range []string{"disk", "mapfs"} {
				runs = append(runs, run{T: t, Entry: e, FS: f})
			}
		}
	}
	// retry after a failed import: trees of >= 2 packages in which every package is needed (chains, diamonds, fan-in: every package exists once), on the virtual filesystem
	for _, t := range trees(true) {
		_, resolvable := t.expected()
		if !resolvable || t.Cycle || len(t.Pkgs) < 2 || !strings.HasPrefix(t.Name, "F3 ") {
			continue
		}
		for _, e := range []string{"import-retry", "import-retry-file", "import-retry-nogo", "import-retry-syntax"} {
			for _, f := range []string{"mapfs", "disk"} {
				runs = append(runs, run{T: t, Entry: e, FS: f})
			}
		}
	}
	res := par.Map(len(runs), func(i int) *fail { return one(runs[i]) }, par.Opts{})
	os.RemoveAll(filepath.Join(root, ".work", "c16"))
	failing := map[string]bool{}
	for _, f := range res.Outs {
		failing[f.R.T.Name+"|"+f.R.Entry+"|"+f.R.FS] = true
	}
	for _, f := range res.Outs {
		if strings.HasPrefix(f.Err, "HARNESS") {
			r.HarnessError("%s: %s", f.R.T.Name, f.Err)
			continue
		}
		key := shapeKey(f) + " | entry=" + f.R.Entry
		// both filesystems fail alike -> one finding; otherwise the filesystem is part of the finding
		other := "mapfs"
		if f.R.FS == "mapfs" {
			other = "disk"
		}
		if !failing[f.R.T.Name+"|"+f.R.Entry+"|"+other] {
			key += " | fs=" + f.R.FS + " only"
		}
		r.Fail(report.Failure{Key: key, What: fmt.Sprintf("%s entry=%s fs=%s: model=%q interpreter=%q err=%s", f.R.T.Name, f.R.Entry, f.R.FS, f.Want, f.Got, f.Err), Case: f})
	}
	for _, a := range res.Abnormal {
		rr := runs[a.Idx]
		r.Fail(report.Failure{Key: rr.T.Name + " | entry=" + rr.Entry + " | " + a.Kind, What: fmt.Sprintf("%s entry=%s fs=%s: interpreter %s (stack overflow / endless recursion?) %s", rr.T.Name, rr.Entry, rr.FS, a.Kind, lastLine(a.Log)), Case: fail{R: rr, Err: a.Kind}})
	}
	n := res.Counts["runs"]
	r.Set("evaluations", n)
	r.Set("states", len(res.Sets["logs"]))
	r.Set("transitions", n)
	r.Set("traces_validated_against_impl", n)
	r.Set("distinct_nontrivial", len(res.Sets["logs"]))
	r.Set("cycle_runs", res.Counts["cycle_runs"])
	r.Set("unresolvable_runs", res.Counts["unresolvable_runs"])
	r.Set("exhaustive", true)
	r.Set("rule", "F1: entry package at depth 1-3 x 5 import paths (with repeated elements) x every subset of the candidate places (each enclosing vendor directory, GOPATH/src); F2: transitive import from a package located at each place, b in every subset of the places seen from there; F3: chain, diamonds, fan-in, duplicate import, self/2/3-cycles, cycle through the entry package; F4: relative imports with decoys; x 3 entry modes (Eval import, EvalPath dir, EvalPath file) x disk and MapFS; retry histories on the F3 trees: the last package broken in 4 ways (missing, regular file in place of its directory, no Go files, parse error), the import fails, the package is put in place and the same interpreter imports again, on both filesystems; states = distinct expected initialisation logs")
	r.Assumptions = []string{"reference model: nearest enclosing vendor directory containing the path, else GOPATH/src/<path>; relative imports against the importing file's directory; every package initialised exactly once, imports first; a cycle or a missing package is an error"}
	for _, i := range []int{0, len(runs) / 2, len(runs) - 1} {
		r.Sample(map[string]interface{}{"tree": runs[i].T.Name, "entry": runs[i].Entry, "fs": runs[i].FS, "packages": runs[i].T.Pkgs})
	}
	r.Finish()
}

var presentRe = regexp.MustCompile(` (b-)?present=[01]+`)
var pathRe = regexp.MustCompile(`(/[A-Za-z0-9_.-]+)+(/|\b)|gp/src/[A-Za-z0-9_./-]+|[0-9]+:[0-9]+: `)

// shapeKey names a finding by what the model picked and what the interpreter did, not by the exact subset of
// places: "<family main import> model=<place> got=<place|error class>"; places are numbered from the nearest
// vendor directory (v0 = the importer's own vendor) to "src".
func shapeKey(f fail) string {
	name := presentRe.ReplaceAllString(f.R.T.Name, "")
	if !strings.HasPrefix(name, "F1") && !strings.HasPrefix(name, "F2") {
		return name + " | " + symptom(f)
	}
	// the import whose resolution is at stake: F1: main's single import; F2: a's import of b
	importer, ip := f.R.T.Main, f.R.T.Pkgs[0].Imports[0]
	if strings.HasPrefix(name, "F2") {
		importer, ip = f.R.T.Pkgs[1].Dir, "b"
	}
	places := vendorPlaces(importer, ip)
	idx := func(dir string) string {
		for k, pl := range places {
			if pl == dir {
				switch {
				case k == len(places)-1:
					return "GOPATH/src"
				case k == 0:
					return "own-vendor"
				case k == len(places)-2:
					return "src/vendor"
				}
				return "ancestor-vendor"
			}
		}
		return "other:" + dir
	}
	// class of the import path: repeated path elements (a/a, x/x) are a root cause of their own
	class := "plain-path"
	if el := strings.Split(ip, "/"); len(el) == 2 && (el[0] == el[1] || strings.HasPrefix(importer, el[0]+"/") && el[0] == el[1]) {
		class = "repeated-elements-path"
	}
	name = name[:2] + " " + class
	want, ok := f.R.T.resolve(importer, ip)
	model := "notfound"
	if ok {
		model = idx(want)
	}
	got := symptom(f)
	if f.Err == "" || f.Err == "<nil>" {
		for _, l := range strings.Split(f.Got, "\n") {
			d := strings.TrimPrefix(l, "init ")
			if d != l && strings.HasSuffix(d, ip) && d != importer {
				got = idx(d)
				break
			}
		}
	}
	return name + " | model=" + model + " got=" + got
}

func symptom(f fail) string {
	if f.Err != "" && f.Err != "<nil>" {
		e := f.Err
		if i := strings.LastIndex(e, "error: "); i >= 0 {
			e = e[i+7:]
		}
		e = strings.NewReplacer("no such file or directory", "not found", "file does not exist", "not found").Replace(e)
		return "error: " + strings.TrimSpace(pathRe.ReplaceAllString(e, "… "))
	}
	return "wrong initialisation log"
}

func lastLine(s string) string {
	l := strings.Split(strings.TrimSpace(s), "\n")
	return l[len(l)-1]
}
