// C17: file selection by build constraints. File names and constraint headers are enumerated
// completely per dimension; the reference model is go/build.Context.MatchFile on the interpreter's own
// build context; every model answer is replayed on the functions the loader uses (verif-tag exports of
// skipFile / buildOk) and, for a slice of packages, end-to-end through EvalPath on a virtual filesystem.
package main

import (
	"bytes"
	"fmt"
	"go/build"
	"io"
	"os"
	"sort"
	"strings"
	"testing/fstest"

	"github.com/traefik/yaegi/interp"
	"verif/engine/par"
	"verif/engine/report"
	"verif/engine/twin/h"
)

var goOS = strings.Fields("aix android darwin dragonfly freebsd hurd illumos ios js linux nacl netbsd openbsd plan9 solaris wasip1 windows zos")
var goArch = strings.Fields("386 amd64 amd64p32 arm armbe arm64 arm64be loong64 mips mipsle mips64 mips64le mips64p32 mips64p32le ppc ppc64 ppc64le riscv riscv64 s390 s390x sparc sparc64 wasm")

type kase struct {
	Kind string   `json:"kind"` // name | header | e2e
	Name string   `json:"name,omitempty"`
	Src  string   `json:"src,omitempty"`
	Tags []string `json:"tags,omitempty"`
	Test bool     `json:"skip_test_files,omitempty"`
	// e2e: files of one package
	Files map[string]string `json:"files,omitempty"`
	Class string            `json:"class"`
}

func newInterp(tags []string, mfs fstest.MapFS, out *bytes.Buffer) *interp.Interpreter {
	steps := 0
	o := interp.Options{BuildTags: tags, Stdout: out, Stderr: &bytes.Buffer{}}
	if mfs != nil {
		o.GoPath = "./gp"
		o.SourcecodeFilesystem = mfs
	}
	i := interp.New(o)
	if out != nil {
		i.Use(h.Exports(out, &steps))
	}
	return i
}

// modelMatch: would the Go toolchain select this file in the interpreter's build context?
func modelMatch(ctx build.Context, name, src string) (bool, error) {
	ctx.OpenFile = func(string) (io.ReadCloser, error) { return io.NopCloser(strings.NewReader(src)), nil }
	return ctx.MatchFile("/d", name)
}

type fail struct {
	K     kase   `json:"case"`
	Model string `json:"go_build"`
	Impl  string `json:"interpreter"`
}

func one(k kase) *fail {
	par.Count("evaluated", 1)
	switch k.Kind {
	case "name":
		i := newInterp(k.Tags, nil, nil)
		ctx := i.VerifContext()
		want, err := modelMatch(ctx, k.Name, "package p\n")
		if err != nil {
			return &fail{k, "MODEL-ERROR " + err.Error(), ""}
		}
		if k.Test && strings.HasSuffix(strings.TrimSuffix(k.Name, ".go"), "_test") {
			want = false // test files are not part of the package when loading without tests
		}
		got := !interp.VerifSkipFile(&ctx, k.Name, k.Test)
		par.Distinct("name_answers", fmt.Sprint(want))
		if want != got {
			return &fail{k, fmt.Sprint("selected=", want), fmt.Sprint("selected=", got)}
		}
	case "header":
		i := newInterp(k.Tags, nil, nil)
		ctx := i.VerifContext()
		want, err := modelMatch(ctx, "x.go", k.Src)
		if err != nil {
			par.Count("model_rejects_header", 1)
			return nil // malformed header for go/build: no model answer
		}
		got, gerr := i.VerifBuildOk("x.go", k.Src)
		par.Distinct("header_answers", fmt.Sprint(want))
		if gerr != nil {
			return &fail{k, fmt.Sprint("selected=", want), "error: " + gerr.Error()}
		}
		if want != got {
			return &fail{k, fmt.Sprint("selected=", want), fmt.Sprint("selected=", got)}
		}
	case "entry":
		// the constrained source is the entry itself (Eval, Compile + Execute, EvalPath on the file): when the toolchain
		// selects it, it runs; when it does not, nothing of it runs and the host survives (an error is acceptable)
		src := k.Src + "package main\n\nimport . \"verif/engine/twin/h\"\n\nfunc main() { Show(\"ran\") }\n"
		var buf bytes.Buffer
		mfs := fstest.MapFS{"gp/src/m/entry.go": &fstest.MapFile{Data: []byte(src)}}
		i := newInterp(k.Tags, mfs, &buf)
		want, merr := modelMatch(i.VerifContext(), "entry.go", src)
		if merr != nil {
			return &fail{k, "MODEL-ERROR " + merr.Error(), ""}
		}
		var err error
		func() {
			defer func() {
				if r := recover(); r != nil {
					err = fmt.Errorf("HOSTPANIC: %v", r)
				}
			}()
			switch k.Name {
			case "eval":
				_, err = i.Eval(src)
			case "compile":
				var p *interp.Program
				if p, err = i.Compile(src); err == nil {
					_, err = i.Execute(p)
				}
			case "evalpath":
				_, err = i.EvalPath("gp/src/m/entry.go")
			}
		}()
		got := fmt.Sprintf("ran=%v", strings.Contains(buf.String(), "ran"))
		if err != nil && (want || strings.HasPrefix(err.Error(), "HOSTPANIC")) {
			got += " error: " + strings.SplitN(err.Error(), "\n", 2)[0]
		}
		if w := fmt.Sprintf("ran=%v", want); w != got {
			return &fail{k, w, got}
		}
	case "sharedtags":
		// two interpreters created from ONE Options.BuildTags slice with spare capacity; each adds its own tag through a
		// yaegi:tags comment; afterwards each must select files by its own tags only
		tags := make([]string, 1, 8)
		tags[0] = "base"
		mk := func(own string, out *bytes.Buffer) *interp.Interpreter {
			file := func(hd, id string) *fstest.MapFile {
				return &fstest.MapFile{Data: []byte(hd + "package main\n\nimport . \"verif/engine/twin/h\"\n\nfunc init() { Show(\"" + id + "\") }\n")}
			}
			mfs := fstest.MapFS{
				"gp/src/t/t.go":  &fstest.MapFile{Data: []byte("// yaegi:tags " + own + "\n\npackage main\n\nfunc main() {}\n")},
				"gp/src/u/m.go":  &fstest.MapFile{Data: []byte("package main\n\nfunc main() {}\n")},
				"gp/src/u/aa.go": file("//go:build aa\n\n", "aa"),
				"gp/src/u/bb.go": file("//go:build bb\n\n", "bb"),
				"gp/src/u/ba.go": file("//go:build base\n\n", "base"),
			}
			steps := 0
			i := interp.New(interp.Options{BuildTags: tags, GoPath: "./gp", SourcecodeFilesystem: mfs, Stdout: out, Stderr: &bytes.Buffer{}})
			i.Use(h.Exports(out, &steps))
			return i
		}
		var oa, ob bytes.Buffer
		ia, ib := mk("aa", &oa), mk("bb", &ob)
		var errs []string
		for _, st := range []struct {
			i *interp.Interpreter
			p string
		}{{ia, "./gp/src/t"}, {ib, "./gp/src/t"}, {ia, "./gp/src/u"}, {ib, "./gp/src/u"}} {
			if _, err := st.i.EvalPath(st.p); err != nil {
				errs = append(errs, strings.SplitN(err.Error(), "\n", 2)[0])
			}
		}
		fa, fb := strings.Fields(oa.String()), strings.Fields(ob.String())
		sort.Strings(fa)
		sort.Strings(fb)
		got := fmt.Sprintf("A=%v B=%v errors=%v", fa, fb, errs)
		if want := "A=[aa base] B=[base bb] errors=[]"; got != want {
			return &fail{k, want, got}
		}
	case "tagline":
		// the entry file carries yaegi:tags comment lines (k.Src = the lines, '|' separated); the interpreter was created with
		// k.Tags; a package loaded AFTERWARDS must be selected file by file as go/build selects with the union of both
		var buf bytes.Buffer
		file := func(hd, id string) string {
			return hd + "package main\n\nimport . \"verif/engine/twin/h\"\n\nfunc init() { Show(\"" + id + "\") }\n"
		}
		files := map[string]string{
			"m.go": "package main\n\nfunc main() {}\n", "fa.go": file("//go:build a\n\n", "fa.go"), "fb.go": file("//go:build b\n\n", "fb.go"),
			"fc.go": file("// +build c\n\n", "fc.go"), "fab.go": file("//go:build a && b\n\n", "fab.go"), "fnotb.go": file("//go:build !b\n\n", "fnotb.go"),
			"fbc.go": file("// +build b,c\n\n", "fbc.go"), "fnota.go": file("// +build !a\n\n", "fnota.go"), "faorc.go": file("//go:build a || c\n\n", "faorc.go"),
		}
		hdr := ""
		union := append([]string{}, k.Tags...)
		for _, line := range strings.Split(k.Src, "|") {
			hdr += "// yaegi:tags " + line + "\n"
			union = append(union, strings.Fields(line)...)
		}
		mfs := fstest.MapFS{"gp/src/t/t.go": &fstest.MapFile{Data: []byte(hdr + "\npackage main\n\nfunc main() {}\n")}}
		var names []string
		for n, src := range files {
			mfs["gp/src/u/"+n] = &fstest.MapFile{Data: []byte(src)}
			names = append(names, n)
		}
		sort.Strings(names)
		i := newInterp(append([]string{}, k.Tags...), mfs, &buf)
		ctx := i.VerifContext()
		ctx.BuildTags = union
		var want []string
		for _, n := range names {
			ok, err := modelMatch(ctx, n, files[n])
			if err != nil {
				return &fail{k, "MODEL-ERROR " + err.Error(), ""}
			}
			if ok && n != "m.go" {
				want = append(want, n)
			}
		}
		var errs []string
		for _, pth := range []string{"./gp/src/t", "./gp/src/u"} {
			if _, err := i.EvalPath(pth); err != nil {
				errs = append(errs, strings.SplitN(err.Error(), "\n", 2)[0])
			}
		}
		got := strings.Fields(buf.String())
		sort.Strings(got)
		w, g := strings.Join(want, " "), strings.Join(got, " ")
		par.Distinct("tagline_answers", w)
		if len(errs) > 0 {
			g += " errors: " + strings.Join(errs, "; ")
		}
		if w != g {
			return &fail{k, w, g}
		}
	case "e2e":
		var buf bytes.Buffer
		mfs := fstest.MapFS{}
		var names []string
		for n, s := range k.Files {
			mfs["gp/src/pk/"+n] = &fstest.MapFile{Data: []byte(s)}
			names = append(names, n)
		}
		sort.Strings(names)
		i := newInterp(k.Tags, mfs, &buf)
		ctx := i.VerifContext()
		var want []string
		for _, n := range names {
			ok, err := modelMatch(ctx, n, k.Files[n])
			if err != nil {
				return &fail{k, "MODEL-ERROR " + err.Error(), ""}
			}
			if ok && !strings.HasSuffix(strings.TrimSuffix(n, ".go"), "_test") {
				want = append(want, n)
			}
		}
		_, err := i.EvalPath("./gp/src/pk")
		got := strings.Fields(buf.String())
		sort.Strings(got)
		w, g := strings.Join(want, " "), strings.Join(got, " ")
		par.Distinct("e2e_answers", w)
		if err != nil {
			g += " error: " + strings.SplitN(err.Error(), "\n", 2)[0]
		}
		if w != g {
			return &fail{k, "files taking part: " + w, "files taking part: " + g}
		}
	}
	return nil
}

// ---------- enumeration ----------

func nameCases(hostOS, hostArch string) []kase {
	words := append(append(append([]string{}, goOS...), goArch...), "unix", "foo", "bar", "test")
	cls := func(w string) string {
		switch {
		case w == hostOS:
			return "GOOS"
		case w == hostArch:
			return "GOARCH"
		case w == "unix" || w == "test":
			return w
		case w == "foo" || w == "bar":
			return "word"
		}
		for _, o := range goOS {
			if o == w {
				return "os:" + w
			}
		}
		return "arch:" + w
	}
	var ks []kase
	add := func(name, class string) {
		for _, t := range []bool{true, false} {
			ks = append(ks, kase{Kind: "name", Name: name, Test: t, Class: "name " + class + fmt.Sprintf(" skiptest=%v", t)})
		}
	}
	add("x.go", "plain")
	add("x_test.go", "plain_test")
	add("_x.go", "underscore-prefix")
	add(".x.go", "dot-prefix")
	add("x.txt", "not-go")
	for _, a := range words {
		add("x_"+a+".go", "x_"+cls(a))
		add(a+".go", "bare:"+cls(a))
		add("x_"+a+"_test.go", "x_"+cls(a)+"_test")
		add("_x_"+a+".go", "underscore-prefix+"+cls(a))
		for _, b := range words {
			add("x_"+a+"_"+b+".go", "x_"+cls(a)+"_"+cls(b))
			add("x_"+a+"_"+b+"_test.go", "x_"+cls(a)+"_"+cls(b)+"_test")
			add("x_foo_"+a+"_"+b+".go", "x_word_"+cls(a)+"_"+cls(b))
			add(a+"_"+b+".go", "bare:"+cls(a)+"_"+cls(b))
		}
	}
	return ks
}

var atoms = []string{"linux", "windows", "amd64", "arm64", "unix", "gc", "cgo", "go1.1", "go1.22", "go1.23", "go1.99", "a", "b", "ignore", "gccgo"}

func literals(set []string) []string {
	var l []string
	for _, a := range set {
		l = append(l, a, "!"+a)
	}
	return l
}

func headerCases(thorough bool) []kase {
	var ks []kase
	tagSets := [][]string{nil, {"a"}, {"b"}, {"a", "b"}}
	wrap := func(header, class string) {
		for _, tags := range tagSets {
			uses := strings.Contains(header, "a") || strings.Contains(header, "b")
			if len(tags) > 0 && !uses {
				continue
			}
			ks = append(ks, kase{Kind: "header", Src: header + "package p\n", Tags: tags, Class: class + fmt.Sprintf(" tags=%v", tags)})
		}
	}
	all := literals(atoms)
	small := literals([]string{"linux", "windows", "amd64", "unix", "gc", "go1.23", "a", "b"})
	if !thorough {
		small = literals([]string{"linux", "windows", "unix", "go1.23", "a"})
	}
	// //go:build expressions
	for _, x := range all {
		wrap("//go:build "+x+"\n\n", "gobuild L")
		for _, y := range all {
			wrap("//go:build "+x+" && "+y+"\n\n", "gobuild L&&L")
			wrap("//go:build "+x+" || "+y+"\n\n", "gobuild L||L")
		}
	}
	for _, x := range small {
		for _, y := range small {
			for _, z := range small {
				wrap("//go:build ("+x+" && "+y+") || "+z+"\n\n", "gobuild (L&&L)||L")
				wrap("//go:build ("+x+" || "+y+") && "+z+"\n\n", "gobuild (L||L)&&L")
				wrap("//go:build !("+x+" && "+y+") && "+z+"\n\n", "gobuild !(L&&L)&&L")
			}
		}
	}
	// // +build lines
	for _, x := range all {
		wrap("// +build "+x+"\n\n", "plusbuild L")
		for _, y := range all {
			wrap("// +build "+x+" "+y+"\n\n", "plusbuild L L (or)")
			wrap("// +build "+x+","+y+"\n\n", "plusbuild L,L (and)")
			wrap("// +build "+x+"\n// +build "+y+"\n\n", "plusbuild L / L (two lines, and)")
		}
	}
	for _, x := range small {
		for _, y := range small {
			for _, z := range small {
				wrap("// +build "+x+","+y+" "+z+"\n\n", "plusbuild L,L L")
				wrap("// +build "+x+" "+y+"\n// +build "+z+"\n\n", "plusbuild L L / L")
			}
		}
	}
	// both syntaxes together (go:build wins), agreeing and disagreeing
	for _, x := range small {
		for _, y := range small {
			wrap("//go:build "+x+"\n// +build "+y+"\n\n", "both gobuild+plusbuild")
		}
	}
	// yaegi:tags comments add tags for the constraints that follow
	for _, x := range []string{"a", "!a", "b", "a,b"} {
		wrap("// yaegi:tags a\n\n// +build "+x+"\n\n", "yaegi:tags then plusbuild")
	}
	// placement of the header relative to the package clause and other comments
	for _, x := range []string{"windows", "!windows", "a", "linux"} {
		for _, form := range []struct{ class, tmpl string }{
			{"placement blank-line-after", "%s\n"},
			{"placement glued-to-package", "%s"},
			{"placement after-doc-comment", "// Doc comment.\n\n%s\n"},
			{"placement after-block-comment", "/* block */\n\n%s\n"},
			{"placement leading-blank-lines", "\n\n%s\n"},
			{"placement two-blank-lines-after", "%s\n\n"},
			{"placement inside-doc-comment-group", "// Doc comment.\n%s\n"},
			{"placement trailing-comment-after", "%s// trailing\n\n"},
		} {
			wrap(fmt.Sprintf(form.tmpl, "//go:build "+x+"\n"), form.class+" gobuild")
			wrap(fmt.Sprintf(form.tmpl, "// +build "+x+"\n"), form.class+" plusbuild")
		}
	}
	// constraint-looking comments after the package clause are ordinary comments for the toolchain
	whole := func(src, class string) {
		for _, tags := range tagSets {
			uses := strings.Contains(src, " a") || strings.Contains(src, "!a")
			if len(tags) > 0 && !uses {
				continue
			}
			ks = append(ks, kase{Kind: "header", Src: src, Tags: tags, Class: class + fmt.Sprintf(" tags=%v", tags)})
		}
	}
	for _, x := range []string{"windows", "!windows", "a", "linux", "ignore"} {
		for _, syn := range []struct{ name, line string }{{"gobuild", "//go:build " + x}, {"plusbuild", "// +build " + x}} {
			whole("package p\n\n"+syn.line+"\n\nimport \"fmt\"\n\nvar _ = fmt.Sprint\n", "placement after-package-clause before-import "+syn.name)
			whole("package p\n"+syn.line+"\n", "placement after-package-clause glued "+syn.name)
			whole("package p\n\n"+syn.line+"\n\nvar V int\n", "placement after-package-clause before-decl "+syn.name)
			whole("package p "+syn.line+"\n", "placement after-package-clause same-line "+syn.name)
			whole("//go:build linux\n\npackage p\n\n"+syn.line+"\n", "placement header-before-and-comment-after "+syn.name)
			whole("// Package p.\npackage p\n\n// Details:\n"+syn.line+"\nvar V int\n", "placement after-package-clause in-decl-doc "+syn.name)
		}
	}
	return ks
}

func e2eCases(hostOS, hostArch string) []kase {
	file := func(header, id string) string {
		return header + "package main\n\nimport . \"verif/engine/twin/h\"\n\nfunc init() { Show(\"" + id + "\") }\n"
	}
	mainFile := "package main\n\nimport . \"verif/engine/twin/h\"\n\nfunc main() { Show(\"main.go\") }\n"
	var ks []kase
	otherOS, otherArch := "windows", "arm64"
	nameSets := [][]string{
		{"a_" + hostOS + ".go", "a_" + otherOS + ".go", "a_" + hostArch + ".go", "a_" + otherArch + ".go"},
		{"a_" + hostOS + "_" + hostArch + ".go", "a_" + hostOS + "_" + otherArch + ".go", "a_" + otherOS + "_" + hostArch + ".go", "a_unix.go", "a_riscv64.go", "a_wasm.go"},
		{"a_test.go", "a_" + hostOS + "_test.go", "_a.go", "a_foo.go", "a_zos.go", "a_hurd.go", "a_s390x.go"},
		{"linux.go", "windows.go", "amd64.go", "a_loong64.go", "a_ppc64.go", "a_js_wasm.go", "a_wasip1.go"},
	}
	for n, set := range nameSets {
		files := map[string]string{"main.go": mainFile}
		for _, f := range set {
			files[f] = file("", f)
		}
		ks = append(ks, kase{Kind: "e2e", Files: files, Class: fmt.Sprintf("e2e names set %d", n)})
	}
	headers := []string{"//go:build " + hostOS + "\n\n", "//go:build !" + hostOS + "\n\n", "//go:build " + otherOS + "\n\n", "//go:build unix && gc\n\n", "//go:build ignore\n\n", "//go:build go1.99\n\n", "//go:build a || b\n\n",
		"// +build " + hostOS + "\n\n", "// +build !" + hostOS + "\n\n", "// +build " + otherOS + "\n\n", "// +build a,b\n\n", "// +build ignore\n\n", "// +build " + otherOS + "\n", "//go:build " + otherOS + "\n"}
	for _, tags := range [][]string{nil, {"a"}, {"a", "b"}} {
		files := map[string]string{"main.go": mainFile}
		for n, hd := range headers {
			id := fmt.Sprintf("h%02d.go", n)
			files[id] = file(hd, id)
		}
		ks = append(ks, kase{Kind: "e2e", Files: files, Tags: tags, Class: fmt.Sprintf("e2e headers tags=%v", tags)})
	}
	return ks
}

func main() {
	r := report.Start("C17", "exploration")
	if r.Replay != "" {
		var cs []fail
		if err := report.ReadReplay(r.Replay, &cs); err != nil {
			fmt.Fprintln(os.Stderr, "HARNESS-ERROR:", err)
			os.Exit(3)
		}
		bad := 0
		for _, c := range cs {
			if f := one(c.K); f != nil {
				bad++
				fmt.Printf("replay %s name=%q tags=%v\n%s   go/build: %s\n   yaegi:    %s\n", c.K.Class, c.K.Name, c.K.Tags, c.K.Src, f.Model, f.Impl)
			} else {
				fmt.Println("replay: agrees now:", c.K.Class)
			}
		}
		if bad > 0 {
			fmt.Printf("VIOLATION property=C17 replay=%s\n", r.Replay)
			os.Exit(1)
		}
		os.Exit(0)
	}
	ctx := newInterp(nil, nil, nil).VerifContext()
	ks := nameCases(ctx.GOOS, ctx.GOARCH)
	nNames := len(ks)
	ks = append(ks, headerCases(true)...)
	nHeaders := len(ks) - nNames
	ks = append(ks, e2eCases(ctx.GOOS, ctx.GOARCH)...)
	// yaegi:tags lines of 1..3 tags over {a, b, c} (every sequence, repetitions included), one or two lines, x the tags the
	// interpreter was created with: the tags in force afterwards are the union
	{
		alpha := []string{"a", "b", "c"}
		var lines []string
		for _, x := range alpha {
			lines = append(lines, x)
			for _, y := range alpha {
				lines = append(lines, x+" "+y)
				for _, z := range alpha {
					lines = append(lines, x+" "+y+" "+z)
				}
			}
		}
		srcs := append([]string{}, lines...)
		for _, l1 := range []string{"a", "b", "a b", "c a"} {
			for _, l2 := range []string{"a", "b c", "b a", "c"} {
				srcs = append(srcs, l1+"|"+l2)
			}
		}
		for _, t0 := range [][]string{nil, {"a"}, {"b"}, {"c"}, {"a", "b"}, {"b", "c"}} {
			for _, src := range srcs {
				ks = append(ks, kase{Kind: "tagline", Src: src, Tags: t0, Class: fmt.Sprintf("yaegi:tags lines %q with BuildTags %v", src, t0)})
			}
		}
	}
	ks = append(ks, kase{Kind: "sharedtags", Class: "two interpreters created from one BuildTags slice, each adding a yaegi:tags tag"})
	for _, hd := range []string{"", "//go:build " + ctx.GOOS + "\n\n", "//go:build !" + ctx.GOOS + "\n\n", "//go:build ignore\n\n", "// +build windows,!" + ctx.GOOS + "\n\n", "// +build " + ctx.GOOS + "\n\n", "//go:build a\n\n", "//go:build go1.99\n\n"} {
		for _, mode := range []string{"eval", "compile", "evalpath"} {
			for _, tags := range [][]string{nil, {"a"}} {
				ks = append(ks, kase{Kind: "entry", Name: mode, Src: hd, Tags: tags, Class: fmt.Sprintf("entry %s header=%q", mode, strings.TrimSpace(hd))})
			}
		}
	}
	res := par.Map(len(ks), func(i int) *fail { return one(ks[i]) }, par.Opts{})
	for _, f := range res.Outs {
		if strings.HasPrefix(f.Model, "MODEL-ERROR") {
			r.HarnessError("%s: %s", f.K.Class, f.Model)
			continue
		}
		key := f.K.Class + " | go:" + f.Model + " yaegi:" + f.Impl
		if f.K.Kind == "header" {
			// a header finding is (syntax+shape class, which way it is wrong, the atoms involved)
			key = f.K.Class + " | " + atomsOf(f.K.Src) + " | go:" + f.Model
		}
		if strings.HasPrefix(f.K.Class, "placement ") {
			key = stripTags(f.K.Class) + " | go:" + f.Model
		}
		if f.K.Kind == "e2e" {
			key = stripTags(f.K.Class) + " | differs on: " + symdiff(f.Model, f.Impl)
		}
		r.Fail(report.Failure{Key: key, What: fmt.Sprintf("%s name=%q tags=%v src=%q: go/build %s, interpreter %s", f.K.Class, f.K.Name, f.K.Tags, f.K.Src, f.Model, f.Impl), Case: f})
	}
	for _, a := range res.Abnormal {
		r.Fail(report.Failure{Key: ks[a.Idx].Class + "|" + a.Kind, What: ks[a.Idx].Class + ": interpreter " + a.Kind, Case: fail{K: ks[a.Idx]}})
	}
	n := res.Counts["evaluated"]
	r.Set("evaluations", n)
	r.Set("name_cases", nNames)
	r.Set("header_cases", nHeaders)
	r.Set("e2e_packages", len(ks)-nNames-nHeaders)
	r.Set("headers_without_model_answer", res.Counts["model_rejects_header"])
	r.Set("distinct_nontrivial", len(res.Sets["name_answers"])+len(res.Sets["header_answers"])+len(res.Sets["e2e_answers"]))
	r.Set("exhaustive", true)
	r.Set("rule", "yaegi:tags lines: every sequence of 1-3 tags over {a,b,c} (repetitions included) and 16 two-line forms x 6 initial BuildTags sets, a package of 8 constrained files loaded afterwards and compared file by file with go/build under the union of the tags; names: every word of go/build's OS and architecture lists + unix + unknown words in the last one and two _ positions (and with a third leading word), with and without _test, _/. prefixes, loading with and without tests; headers: all boolean expressions of depth <= 2 over literals of 15 atoms in //go:build and // +build syntax (or / and / two lines), both syntaxes together, yaegi:tags, 8 placements before and 6 after the package clause, x tag sets over {a,b}; e2e: packages on a MapFS loaded by EvalPath; entry: the constrained source as the entry itself through Eval, Compile + Execute and EvalPath on the file (8 headers x 2 tag sets); two interpreters created from one Options.BuildTags slice, each adding its own yaegi:tags tag. distinct_nontrivial = distinct model answers observed per dimension (true/false, file sets)")
	r.Assumptions = []string{"go/build.Context.MatchFile on a copy of the interpreter's own build context is the reference", "headers that go/build itself reports as malformed have no model answer and are skipped (counted)"}
	for _, i := range []int{3, nNames + 5, len(ks) - 1} {
		r.Sample(ks[i])
	}
	r.Finish()
}

func stripTags(c string) string {
	if i := strings.Index(c, " tags="); i >= 0 {
		return c[:i]
	}
	return c
}

func symdiff(a, b string) string {
	fa, fb := map[string]bool{}, map[string]bool{}
	for _, w := range strings.Fields(a) {
		if strings.HasSuffix(w, ".go") {
			fa[w] = true
		}
	}
	for _, w := range strings.Fields(b) {
		if strings.HasSuffix(w, ".go") {
			fb[w] = true
		}
	}
	var d []string
	for w := range fa {
		if !fb[w] {
			d = append(d, "-"+w)
		}
	}
	for w := range fb {
		if !fa[w] {
			d = append(d, "+"+w)
		}
	}
	sort.Strings(d)
	return strings.Join(d, " ")
}

// atomsOf lists the distinct atoms of a header (sorted), so that a finding names what it is about.
func atomsOf(src string) string {
	seen := map[string]bool{}
	for _, a := range atoms {
		for _, w := range strings.FieldsFunc(src, func(r rune) bool { return strings.ContainsRune(" \n!&|(),/+:", r) }) {
			if w == a {
				seen[a] = true
			}
		}
	}
	var l []string
	for a := range seen {
		l = append(l, a)
	}
	sort.Strings(l)
	return strings.Join(l, ",")
}
