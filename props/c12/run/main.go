// C12: every single-point type-breaking mutation of every applicable site of a well-typed corpus must be
// rejected by the interpreter before anything runs (no statement, no package initialisation).
package main

import (
	"bytes"
	"embed"
	"fmt"
	"go/ast"
	"go/parser"
	"go/token"
	"go/types"
	"os"
	"sort"
	"strings"
	"testing/fstest"

	"github.com/traefik/yaegi/interp"
	"github.com/traefik/yaegi/stdlib"
	"verif/engine/par"
	"verif/engine/report"
	"verif/engine/twin/emit"
	"verif/engine/twin/h"
)

//go:embed corpus/*.txt
var corpusFS embed.FS

type mutant struct {
	Base  string `json:"base"`
	Op    string `json:"op"`
	Site  string `json:"site"` // site kind + type detail: the known-finding key is op|site
	Line  int    `json:"line"`
	Start int    `json:"-"`
	End   int    `json:"-"`
	Text  string `json:"replacement"`
	Orig  string `json:"original"`
	Src   string `json:"src"`
}

var imp types.Importer

func libPackage() *types.Package {
	b, _ := corpusFS.ReadFile("corpus/lib.go.txt")
	c := emit.Check(imp, string(b))
	if c.Err != nil {
		panic(c.Err)
	}
	return c.Pkg
}

type withLib struct {
	types.Importer
	lib *types.Package
}

func (w withLib) Import(p string) (*types.Package, error) {
	if p == "lib" {
		return w.lib, nil
	}
	return w.Importer.Import(p)
}

type checked struct {
	fset *token.FileSet
	file *ast.File
	info *types.Info
	errs []types.Error
}

func check(src string) checked {
	fset := token.NewFileSet()
	f, err := parser.ParseFile(fset, "p.go", src, parser.SkipObjectResolution)
	if err != nil {
		return checked{errs: []types.Error{{Msg: "parse: " + err.Error()}}}
	}
	info := &types.Info{Types: map[ast.Expr]types.TypeAndValue{}, Uses: map[*ast.Ident]types.Object{}, Defs: map[*ast.Ident]types.Object{}, Selections: map[*ast.SelectorExpr]*types.Selection{}}
	c := checked{fset: fset, file: f, info: info}
	conf := types.Config{Importer: imp, GoVersion: "go1.22", Error: func(e error) { c.errs = append(c.errs, e.(types.Error)) }}
	conf.Check("main", fset, []*ast.File{f}, info)
	return c
}

// wrong returns a literal that is not assignable to t ("" if every literal is).
func wrong(t types.Type) (string, string) {
	switch u := t.Underlying().(type) {
	case *types.Basic:
		switch {
		case u.Info()&types.IsString != 0:
			return "1", "string<-int"
		case u.Info()&types.IsBoolean != 0:
			return "1", "bool<-int"
		case u.Info()&types.IsNumeric != 0:
			return `"s"`, u.Name() + "<-string"
		}
	case *types.Interface:
		if u.NumMethods() == 0 {
			return "", ""
		}
		return "1", "iface<-int"
	case *types.Struct:
		return "1", "struct<-int"
	case *types.Slice:
		return "1", "slice<-int"
	case *types.Array:
		return "1", "array<-int"
	case *types.Map:
		return "1", "map<-int"
	case *types.Pointer:
		return "1", "pointer<-int"
	case *types.Signature:
		return "1", "func<-int"
	case *types.Chan:
		return "1", "chan<-int"
	}
	return "", ""
}

// wrongs returns every replacement tried where a value of type t is expected: the untyped literal of wrong(t), a typed
// non-constant operand of another type (package-level helper variables of the corpus) and, for integer types, a
// constant of the right class that the type cannot represent.
func wrongs(t types.Type) [][2]string {
	w, d := wrong(t)
	if w == "" {
		return nil
	}
	out := [][2]string{{w, d}}
	dst := strings.SplitN(d, "<-", 2)[0]
	switch t.Underlying().(type) {
	case *types.Basic, *types.Struct, *types.Array:
		out = append(out, [2]string{"nil", dst + "<-nil"})
	}
	if b, ok := t.Underlying().(*types.Basic); ok && b.Info()&types.IsNumeric != 0 {
		out = append(out, [2]string{"wrongS", dst + "<-string-var"})
		if b.Info()&types.IsInteger != 0 {
			out = append(out, [2]string{"2.5", dst + "<-2.5"})
		}
	} else {
		out = append(out, [2]string{"wrongI", dst + "<-int-var"})
	}
	return out
}

// oor returns the smallest constant that overflows the small integer kind b.
func oor(b *types.Basic) string {
	switch b.Kind() {
	case types.Int8:
		return "128"
	case types.Uint8:
		return "256"
	case types.Int16:
		return "32768"
	}
	return "65536"
}

func lhsKind(e ast.Expr) string {
	switch x := e.(type) {
	case *ast.Ident:
		return "var"
	case *ast.SelectorExpr:
		return "field"
	case *ast.IndexExpr:
		_ = x
		return "element"
	case *ast.StarExpr:
		return "pointee"
	}
	return "other"
}

func mutantsOf(base, src string) []mutant {
	c := check(src)
	if len(c.errs) > 0 {
		fmt.Fprintln(os.Stderr, "HARNESS-ERROR: base program", base, "rejected by go/types:", c.errs[0])
		os.Exit(3)
	}
	off := func(p token.Pos) int { return c.fset.Position(p).Offset }
	var out []mutant
	add := func(op, site string, n ast.Node, text string) {
		s, e := off(n.Pos()), off(n.End())
		out = append(out, mutant{Base: base, Op: op, Site: site, Line: c.fset.Position(n.Pos()).Line, Start: s, End: e, Text: text, Orig: src[s:e]})
	}
	addRange := func(op, site string, from, to token.Pos, text string) {
		s, e := off(from), off(to)
		out = append(out, mutant{Base: base, Op: op, Site: site, Line: c.fset.Position(from).Line, Start: s, End: e, Text: text, Orig: src[s:e]})
	}
	typeOf := func(e ast.Expr) types.Type { return c.info.Types[e].Type }
	text := func(n ast.Node) string { return src[off(n.Pos()):off(n.End())] }
	var funcStack []*types.Signature
	ast.Inspect(c.file, func(n ast.Node) bool {
		switch x := n.(type) {
		case *ast.FuncDecl:
			if o, ok := c.info.Defs[x.Name].(*types.Func); ok {
				funcStack = append(funcStack, o.Type().(*types.Signature))
			}
		case *ast.AssignStmt:
			if (x.Tok == token.ASSIGN || x.Tok == token.ADD_ASSIGN) && len(x.Lhs) == len(x.Rhs) {
				for i, l := range x.Lhs {
					t := typeOf(l)
					if t == nil {
						continue
					}
					for _, wd := range wrongs(t) {
						w, d := wd[0], wd[1]
						add("assign-type-mismatch", lhsKind(l)+":"+d, x.Rhs[i], w)
					}
					// out-of-range constant for small integer destinations
					if b, ok := t.Underlying().(*types.Basic); ok && x.Tok == token.ASSIGN {
						switch b.Kind() {
						case types.Int8, types.Uint8, types.Int16, types.Uint16:
							add("const-out-of-range", "assign:"+b.Name(), x.Rhs[i], oor(b))
							add("const-out-of-range", "far-assign:"+b.Name(), x.Rhs[i], "70000")
						case types.Int, types.Int64:
							add("const-out-of-range", "assign:"+b.Name(), x.Rhs[i], "9223372036854775808")
						}
					}
				}
			}
			if (x.Tok == token.ASSIGN || x.Tok == token.DEFINE) && len(x.Lhs) >= 2 && len(x.Rhs) == 1 {
				// a, b, c = f()  ->  one destination fewer (each position) / one blank destination more: the number of
				// results no longer matches in either direction
				if call, ok := x.Rhs[0].(*ast.CallExpr); ok {
					if tup, ok := typeOf(call).(*types.Tuple); ok && tup.Len() == len(x.Lhs) {
						tok := "assign"
						if x.Tok == token.DEFINE {
							tok = "define"
						}
						for k := range x.Lhs {
							id, isId := x.Lhs[k].(*ast.Ident)
							if x.Tok == token.DEFINE && !(isId && id.Name == "_") {
								continue // dropping a defined name would only produce "undefined" errors elsewhere
							}
							var rest []string
							for j, l := range x.Lhs {
								if j != k {
									rest = append(rest, text(l))
								}
							}
							addRange("assign-count-mismatch", fmt.Sprintf("%s %d=call%d drop#%d", tok, len(x.Lhs)-1, len(x.Lhs), k), x.Lhs[0].Pos(), x.Lhs[len(x.Lhs)-1].End(), strings.Join(rest, ", "))
						}
						addRange("assign-count-mismatch", fmt.Sprintf("%s %d=call%d extra blank", tok, len(x.Lhs)+1, len(x.Lhs)), x.Lhs[0].Pos(), x.Lhs[len(x.Lhs)-1].End(), text(x.Lhs[0])+", _"+src[off(x.Lhs[0].End()):off(x.Lhs[len(x.Lhs)-1].End())])
					}
				}
			}
			if x.Tok == token.ASSIGN && len(x.Lhs) == 2 && len(x.Rhs) == 2 {
				// a, b = e : count mismatch
				addRange("assign-count-mismatch", "2=1", x.Rhs[0].Pos(), x.Rhs[1].End(), text(x.Rhs[0]))
			}
			if x.Tok == token.DEFINE && len(x.Lhs) == 2 && len(x.Rhs) == 1 {
				if call, ok := x.Rhs[0].(*ast.CallExpr); ok {
					if tup, ok := typeOf(call).(*types.Tuple); ok && tup.Len() == 2 {
						// n, t := f()  ->  n := f()  (two results into one variable)
						addRange("assign-count-mismatch", "1=call2", x.Lhs[0].Pos(), x.Lhs[1].End(), text(x.Lhs[0]))
					}
				}
			}
			if x.Tok == token.DEFINE && len(x.Lhs) == 1 && len(x.Rhs) == 1 {
				if call, ok := x.Rhs[0].(*ast.CallExpr); ok {
					if _, isTuple := typeOf(call).(*types.Tuple); !isTuple && typeOf(call) != nil {
						if c.info.Types[call.Fun].IsType() {
							break
						}
						// x := f()  ->  x, extra := f()  (one result into two variables)
						add("assign-count-mismatch", "2=call1", x.Lhs[0], text(x.Lhs[0])+", extraVar")
					}
				}
			}
		case *ast.ValueSpec:
			if len(x.Names) >= 2 && len(x.Values) == 1 {
				if call, ok := x.Values[0].(*ast.CallExpr); ok {
					if tup, ok := typeOf(call).(*types.Tuple); ok && tup.Len() == len(x.Names) {
						for k, nm := range x.Names {
							if nm.Name != "_" {
								continue
							}
							var rest []string
							for j, l := range x.Names {
								if j != k {
									rest = append(rest, l.Name)
								}
							}
							addRange("assign-count-mismatch", fmt.Sprintf("vardecl %d=call%d drop#%d", len(x.Names)-1, len(x.Names), k), x.Names[0].Pos(), x.Names[len(x.Names)-1].End(), strings.Join(rest, ", "))
						}
					}
				}
			}
			if x.Type != nil && len(x.Values) == 1 && len(x.Names) == 1 {
				t := typeOf(x.Type)
				if t != nil {
					for _, wd := range wrongs(t) {
						w, d := wd[0], wd[1]
						add("assign-type-mismatch", "vardecl:"+d, x.Values[0], w)
					}
					if b, ok := t.Underlying().(*types.Basic); ok {
						switch b.Kind() {
						case types.Int8, types.Uint8, types.Int16, types.Uint16:
							add("const-out-of-range", "vardecl:"+b.Name(), x.Values[0], oor(b))
							add("const-out-of-range", "far-vardecl:"+b.Name(), x.Values[0], "70000")
						case types.Uint, types.Uint32, types.Uint64:
							add("const-out-of-range", "vardecl:"+b.Name(), x.Values[0], "-1")
						}
					}
					if it, ok := t.Underlying().(*types.Interface); ok && it.NumMethods() > 0 {
						add("missing-method", "vardecl:struct{}", x.Values[0], "struct{}{}")
						// pointer-receiver case: &v -> v
						if u, ok := x.Values[0].(*ast.UnaryExpr); ok && u.Op == token.AND {
							add("missing-method", "vardecl:ptr-receiver", x.Values[0], text(u.X))
						}
						if id, ok := x.Values[0].(*ast.Ident); ok {
							if p, ok := typeOf(id).(*types.Pointer); ok {
								_ = p
								add("missing-method", "vardecl:ptr-receiver", x.Values[0], "*"+id.Name)
							}
						}
					}
				}
			}
		case *ast.CallExpr:
			tv := c.info.Types[x.Fun]
			if tv.IsType() {
				// conversion
				if len(x.Args) == 1 {
					at := typeOf(x.Args[0])
					tt := tv.Type
					if at != nil {
						if tb, ok := tt.Underlying().(*types.Basic); ok && tb.Info()&types.IsNumeric != 0 {
							add("invalid-conversion", "numeric(string)", x.Args[0], `"s"`)
							add("invalid-conversion", "numeric(pointer)", x.Args[0], "new(int)")
							add("invalid-conversion", "numeric(struct)", x.Args[0], "struct{}{}")
							add("invalid-conversion", "numeric(slice)", x.Args[0], "[]int{1}")
						}
						if tb, ok := tt.Underlying().(*types.Basic); ok && tb.Info()&types.IsString != 0 {
							add("invalid-conversion", "string(pointer)", x.Args[0], "new(int)")
							add("invalid-conversion", "string(map)", x.Args[0], "map[int]int{}")
						}
						if _, ok := tt.Underlying().(*types.Struct); ok {
							add("invalid-conversion", "struct(pointer)", x.Args[0], "new(int)")
							add("invalid-conversion", "struct(int)", x.Args[0], "1")
						}
						if tb, ok := tt.Underlying().(*types.Basic); ok && tb.Info()&types.IsString != 0 {
							add("invalid-conversion", "string(float)", x.Args[0], "1.5")
							add("invalid-conversion", "string(bool)", x.Args[0], "true")
						}
						if _, ok := tt.Underlying().(*types.Slice); ok {
							add("invalid-conversion", "slice(int)", x.Args[0], "1")
						}
					}
				}
				return true
			}
			if tv.IsBuiltin() {
				name := text(x.Fun)
				args := func(a ...string) string { return name + "(" + strings.Join(a, ", ") + ")" }
				switch name {
				case "len":
					add("invalid-builtin", "len(int)", x, args("1"))
					add("invalid-builtin", "len()", x, args())
					add("invalid-builtin", "len(a,b)", x, args(text(x.Args[0]), text(x.Args[0])))
				case "cap":
					add("invalid-builtin", "cap(string)", x, args(`"s"`))
					add("invalid-builtin", "cap(map)", x, args("map[int]int{}"))
				case "append":
					add("invalid-builtin", "append(int,..)", x, args("1", "2"))
					add("invalid-builtin", "append()", x, args())
					add("invalid-builtin", "append(s, wrongelem)", x, args(text(x.Args[0]), "struct{}{}"))
				case "copy":
					add("invalid-builtin", "copy(a)", x, args(text(x.Args[0])))
					add("invalid-builtin", "copy(int,int)", x, args("1", "2"))
				case "delete":
					add("invalid-builtin", "delete(m)", x, args(text(x.Args[0])))
					add("invalid-builtin", "delete(slice,k)", x, args("[]int{}", "0"))
					add("invalid-builtin", "delete(m, wrongkey)", x, args(text(x.Args[0]), "struct{}{}"))
				case "make":
					add("invalid-builtin", "make(int)", x, args("int"))
					add("invalid-builtin", "make([]T)", x, args("[]int"))
					add("invalid-builtin", "make([]T, string)", x, args("[]int", `"s"`))
				case "new":
					add("invalid-builtin", "new(5)", x, args("5"))
					add("invalid-builtin", "new()", x, args())
				case "close":
					add("invalid-builtin", "close(int)", x, args("1"))
				case "real":
					add("invalid-builtin", "real(string)", x, args(`"s"`))
				case "complex":
					add("invalid-builtin", "complex(int,string)", x, args("1", `"s"`))
				}
				return true
			}
			sig, ok := tv.Type.(*types.Signature)
			if !ok {
				return true
			}
			kind := "func"
			if sel, ok := x.Fun.(*ast.SelectorExpr); ok {
				if s := c.info.Selections[sel]; s != nil {
					kind = "method"
				} else {
					kind = "pkgfunc"
				}
			}
			np := sig.Params().Len()
			for i, a := range x.Args {
				if x.Ellipsis.IsValid() {
					break
				}
				var pt types.Type
				switch {
				case sig.Variadic() && i >= np-1:
					pt = sig.Params().At(np - 1).Type().(*types.Slice).Elem()
				case i < np:
					pt = sig.Params().At(i).Type()
				}
				if pt == nil {
					continue
				}
				for _, wd := range wrongs(pt) {
					w, d := wd[0], wd[1]
					site := kind + "-arg:" + d
					if sig.Variadic() && i >= np-1 {
						site = kind + "-variadic-arg:" + d
					}
					add("call-arg-type-mismatch", site, a, w)
				}
				if b, ok := pt.Underlying().(*types.Basic); ok && (b.Kind() == types.Int8 || b.Kind() == types.Uint8) {
					add("const-out-of-range", "arg:"+b.Name(), a, oor(b))
					add("const-out-of-range", "far-arg:"+b.Name(), a, "70000")
				}
			}
			// variadic calls: a spread argument together with positional values for the variadic parameter; a spread
			// argument for a non-variadic function; a missing fixed argument
			if sig.Variadic() && len(x.Args) > 0 {
				last := x.Args[len(x.Args)-1]
				np := sig.Params().Len()
				if x.Ellipsis.IsValid() {
					add("call-arg-count", kind+":spread-with-extra-positional", last, "nil, "+text(last))
					if et, ok := sig.Params().At(np - 1).Type().(*types.Slice); ok {
						if b, ok := et.Elem().Underlying().(*types.Basic); ok && b.Info()&types.IsNumeric != 0 {
							add("call-arg-count", kind+":spread-with-extra-positional", last, "0, "+text(last))
						}
					}
				} else if len(x.Args) >= np {
					// listed values: replace the last one by a spread of a slice literal while earlier variadic values remain
					if et, ok := sig.Params().At(np - 1).Type().(*types.Slice); ok && len(x.Args) > np {
						add("call-arg-count", kind+":positional-then-spread", last, types.TypeString(et, func(p *types.Package) string { return p.Name() })+"{}...")
					}
				}
			}
			if len(x.Args) > 0 && !x.Ellipsis.IsValid() && !sig.Variadic() {
				last := x.Args[len(x.Args)-1]
				add("call-arg-count", kind+":extra", last, text(last)+", 1")
				if len(x.Args) >= 2 {
					addRange("call-arg-count", kind+":missing", x.Args[len(x.Args)-2].End(), last.End(), "")
				} else {
					add("call-arg-count", kind+":missing", last, "")
				}
			}
		case *ast.ReturnStmt:
			if len(funcStack) == 0 {
				return true
			}
			sig := funcStack[len(funcStack)-1]
			if sig.Results().Len() == len(x.Results) {
				for i, r := range x.Results {
					for _, wd := range wrongs(sig.Results().At(i).Type()) {
						w, d := wd[0], wd[1]
						add("return-type-mismatch", d, r, w)
					}
				}
				if len(x.Results) >= 1 {
					last := x.Results[len(x.Results)-1]
					add("return-count", "extra", last, text(last)+", 1")
					if len(x.Results) >= 2 {
						addRange("return-count", "missing", x.Results[len(x.Results)-2].End(), last.End(), "")
					}
				}
			}
		case *ast.SelectorExpr:
			if s := c.info.Selections[x]; s != nil {
				switch s.Kind() {
				case types.FieldVal:
					add("undefined-field", "field", x.Sel, "NoSuchField")
				case types.MethodVal:
					add("undefined-method", "method", x.Sel, "NoSuchMethod")
				}
			} else if id, ok := x.X.(*ast.Ident); ok {
				if _, ok := c.info.Uses[id].(*types.PkgName); ok {
					add("undefined-package-member", "pkg", x.Sel, "NoSuchMember")
				}
			}
		case *ast.Ident:
			if o, ok := c.info.Uses[x].(*types.Var); ok && !o.IsField() && o.Parent() != nil && o.Parent() != types.Universe {
				add("undefined-name", "var-use", x, "noSuchName")
			}
		case *ast.ForStmt:
			if x.Cond != nil {
				add("non-bool-condition", "for", x.Cond, "1")
			}
		case *ast.IfStmt:
			add("non-bool-condition", "if", x.Cond, `"s"`)
		case *ast.SwitchStmt:
			// expression switch: a case expression that cannot be compared with the tag
			if x.Tag != nil {
				if tt := typeOf(x.Tag); tt != nil {
					for _, cc := range x.Body.List {
						cl, ok := cc.(*ast.CaseClause)
						if !ok || len(cl.List) == 0 {
							continue
						}
						for _, wd := range wrongs(tt) {
							add("operand-type-mismatch", "switch-case:"+wd[1], cl.List[0], wd[0])
						}
						break
					}
				}
			}
		case *ast.CompositeLit:
			t := typeOf(x)
			if t == nil {
				return true
			}
			switch u := t.Underlying().(type) {
			case *types.Struct:
				if len(x.Elts) > 0 {
					if kv, ok := x.Elts[0].(*ast.KeyValueExpr); ok {
						add("composite-literal", "struct:unknown-field", kv.Key, "NoSuchField")
						add("composite-literal", "struct:duplicate-field", x.Elts[len(x.Elts)-1], text(x.Elts[len(x.Elts)-1])+", "+text(kv))
						for _, wd := range wrongs(typeOf(kv.Value)) {
							w, d := wd[0], wd[1]
							add("composite-literal", "struct:field-type:"+d, kv.Value, w)
						}
						if len(x.Elts) >= 2 {
							add("composite-literal", "struct:mixed-keyed-positional", x.Elts[len(x.Elts)-1], "1")
						}
					} else {
						last := x.Elts[len(x.Elts)-1]
						add("composite-literal", "struct:too-many-values", last, text(last)+", 1")
						if u.NumFields() >= 2 && len(x.Elts) == u.NumFields() {
							addRange("composite-literal", "struct:too-few-values", x.Elts[len(x.Elts)-2].End(), last.End(), "")
						}
						for _, wd := range wrongs(typeOf(x.Elts[0])) {
							w, d := wd[0], wd[1]
							add("composite-literal", "struct:positional-type:"+d, x.Elts[0], w)
						}
					}
				}
			case *types.Array:
				if len(x.Elts) > 0 {
					if _, ok := x.Elts[0].(*ast.KeyValueExpr); !ok {
						last := x.Elts[len(x.Elts)-1]
						if int64(len(x.Elts)) == u.Len() {
							add("composite-literal", "array:too-many-elements", last, text(last)+", "+text(last))
						}
						add("composite-literal", "array:index-out-of-range", last, fmt.Sprintf("%d: %s", u.Len()+3, text(last)))
						for _, wd := range wrongs(u.Elem()) {
							w, d := wd[0], wd[1]
							add("composite-literal", "array:element-type:"+d, x.Elts[0], w)
						}
					}
				}
			case *types.Slice:
				if len(x.Elts) > 0 {
					if _, ok := x.Elts[0].(*ast.KeyValueExpr); !ok {
						for _, wd := range wrongs(u.Elem()) {
							w, d := wd[0], wd[1]
							add("composite-literal", "slice:element-type:"+d, x.Elts[0], w)
						}
						add("composite-literal", "slice:negative-index", x.Elts[0], "-1: "+text(x.Elts[0]))
					}
				}
			case *types.Map:
				for ei, el := range x.Elts {
					kvn, ok := el.(*ast.KeyValueExpr)
					if !ok || ei == 0 {
						continue
					}
					kc := "const-key"
					if c.info.Types[kvn.Key].Value == nil {
						kc = "nonconst-key"
					}
					for _, wd := range wrongs(u.Elem()) {
						add("composite-literal", "map:value-type:"+wd[1]+":"+kc+":later-element", kvn.Value, wd[0])
					}
					for _, wd := range wrongs(u.Key()) {
						add("composite-literal", "map:key-type:"+wd[1]+":"+kc+":later-element", kvn.Key, wd[0])
					}
				}
				if len(x.Elts) > 0 {
					if kv, ok := x.Elts[0].(*ast.KeyValueExpr); ok {
						for _, wd := range wrongs(u.Key()) {
							w, d := wd[0], wd[1]
							add("composite-literal", "map:key-type:"+d, kv.Key, w)
						}
						for _, wd := range wrongs(u.Elem()) {
							w, d := wd[0], wd[1]
							kc := "const-key"
							if c.info.Types[kv.Key].Value == nil {
								kc = "nonconst-key"
							}
							add("composite-literal", "map:value-type:"+d+":"+kc, kv.Value, w)
						}
						if c.info.Types[kv.Key].Value != nil {
							add("composite-literal", "map:duplicate-key", x.Elts[len(x.Elts)-1], text(x.Elts[len(x.Elts)-1])+", "+text(kv))
						}
						add("composite-literal", "map:missing-key", kv, text(kv.Value))
					}
				}
			}
		case *ast.BinaryExpr:
			lt, rt := typeOf(x.X), typeOf(x.Y)
			if lt == nil || rt == nil || c.info.Types[x].Value != nil {
				return true
			}
			if b, ok := lt.Underlying().(*types.Basic); ok && c.info.Types[x.X].Value == nil {
				switch b.Kind() {
				case types.Int8, types.Uint8, types.Int16, types.Uint16:
					add("const-out-of-range", "operand:"+b.Name(), x.Y, oor(b))
					add("const-out-of-range", "far-operand:"+b.Name(), x.Y, "70000")
				}
			}
			for _, wd := range wrongs(lt) {
				w, d := wd[0], wd[1]
				if c.info.Types[x.X].Value != nil {
					continue
				}
				switch x.Op {
				case token.ADD, token.SUB, token.MUL, token.QUO, token.EQL, token.LSS, token.GTR, token.LAND, token.LOR, token.NEQ, token.LEQ, token.GEQ:
					add("operand-type-mismatch", x.Op.String()+":"+d, x.Y, w)
				}
			}
		case *ast.UnaryExpr:
			t := typeOf(x.X)
			if t == nil || c.info.Types[x].Value != nil {
				return true
			}
			if b, ok := t.Underlying().(*types.Basic); ok {
				switch {
				case (x.Op == token.SUB || x.Op == token.XOR) && b.Info()&types.IsNumeric != 0:
					add("operand-type-mismatch", "unary"+x.Op.String()+":string", x.X, `"s"`)
				case x.Op == token.NOT && b.Info()&types.IsBoolean != 0:
					add("operand-type-mismatch", "unary!:int", x.X, "1")
				}
			}
		case *ast.RangeStmt:
			if t := typeOf(x.X); t != nil {
				switch t.Underlying().(type) {
				case *types.Slice, *types.Array, *types.Map, *types.Chan:
					add("operand-type-mismatch", "range-over-bool", x.X, "true")
				}
			}
		case *ast.TypeAssertExpr:
			if x.Type != nil {
				// assertion on a non-interface operand
				add("invalid-conversion", "assert-on-non-interface", x.X, "1")
			}
		case *ast.SendStmt:
			add("channel-direction", "send-value-type", x.Value, `"s"`)
		case *ast.IndexExpr:
			if at, ok := typeOf(x.X).Underlying().(*types.Array); ok {
				add("const-out-of-range", "array-index", x.Index, fmt.Sprint(at.Len()+2))
			}
			if mt, ok := typeOf(x.X).Underlying().(*types.Map); ok {
				for _, wd := range wrongs(mt.Key()) {
					w, d := wd[0], wd[1]
					add("assign-type-mismatch", "map-index-key:"+d, x.Index, w)
				}
			}
			if _, ok := typeOf(x.X).Underlying().(*types.Slice); ok {
				add("operand-type-mismatch", "slice-index:string", x.Index, `"s"`)
			}
		case *ast.FuncType:
			// channel direction: flip the direction of a directional channel parameter
			if x.Params != nil {
				for _, fl := range x.Params.List {
					if ct, ok := fl.Type.(*ast.ChanType); ok {
						if ct.Dir == ast.SEND {
							add("channel-direction", "send-on-receive-only", fl.Type, "<-chan "+text(ct.Value))
						}
						if ct.Dir == ast.RECV {
							add("channel-direction", "receive-from-send-only", fl.Type, "chan<- "+text(ct.Value))
						}
					}
				}
			}
		}
		return true
	})
	// materialise sources
	for i := range out {
		m := &out[i]
		m.Src = src[:m.Start] + m.Text + src[m.End:]
	}
	return out
}

// oracle: go/types must reject the mutant, and every error must lie on the mutated line (a mutant with
// knock-on errors elsewhere, or one that go/types accepts, is discarded and counted).
func oracle(m mutant) (reject bool, msg string) {
	c := check(m.Src)
	if len(c.errs) == 0 {
		return false, "accepted by go/types"
	}
	for _, e := range c.errs {
		if e.Fset == nil {
			return false, "parse error"
		}
		if l := e.Fset.Position(e.Pos).Line; l != m.Line {
			// unused-variable style knock-on errors ("declared and not used") are tolerated when the primary error is on the line
			if strings.Contains(e.Msg, "declared and not used") || strings.Contains(e.Msg, "imported and not used") {
				continue
			}
			return false, "error elsewhere: " + e.Msg
		}
	}
	first := c.errs[0].Msg
	if strings.Contains(first, "declared and not used") || strings.Contains(first, "imported and not used") {
		if len(c.errs) == 1 {
			return false, "only an unused-variable error (class not named in the statement)"
		}
		first = c.errs[1].Msg
	}
	return true, first
}

var libSrc string

func run(src string) (out string, err error) {
	var buf bytes.Buffer
	steps := 0
	defer func() {
		if r := recover(); r != nil {
			err = fmt.Errorf("HOSTPANIC: %v", r)
			out = buf.String()
		}
	}()
	i := interp.New(interp.Options{Stdout: &buf, Stderr: &bytes.Buffer{}, GoPath: "./gp", SourcecodeFilesystem: fstest.MapFS{"gp/src/lib/lib.go": &fstest.MapFile{Data: []byte(libSrc)}}})
	i.Use(stdlib.Symbols)
	i.Use(h.Exports(&buf, &steps))
	_, err = i.Eval(src)
	return buf.String(), err
}

type fail struct {
	M    mutant `json:"mutant"`
	Want string `json:"go_types_error"`
	Out  string `json:"output"`
	Err  string `json:"interp_error"`
	Kind string `json:"kind"`
}

func main() {
	r := report.Start("C12", "exploration")
	imp = emit.NewImporter()
	imp = withLib{imp, libPackage()}
	b, _ := corpusFS.ReadFile("corpus/lib.go.txt")
	libSrc = string(b)
	if r.Replay != "" {
		var cs []fail
		if err := report.ReadReplay(r.Replay, &cs); err != nil {
			fmt.Fprintln(os.Stderr, "HARNESS-ERROR:", err)
			os.Exit(3)
		}
		bad := 0
		for _, c := range cs {
			out, err := run(c.M.Src)
			fmt.Printf("replay %s %s|%s line %d (%q -> %q): go/types: %s\n   interpreter: err=%v output=%q\n", c.M.Base, c.M.Op, c.M.Site, c.M.Line, c.M.Orig, c.M.Text, c.Want, err, out)
			if err == nil || out != "" {
				bad++
			}
		}
		if bad > 0 {
			fmt.Printf("VIOLATION property=C12 replay=%s\n", r.Replay)
			os.Exit(1)
		}
		os.Exit(0)
	}
	ents, _ := corpusFS.ReadDir("corpus")
	var muts []mutant
	var bases []string
	for _, e := range ents {
		if !strings.HasPrefix(e.Name(), "p") {
			continue
		}
		b, _ := corpusFS.ReadFile("corpus/" + e.Name())
		bases = append(bases, e.Name())
		// the unmodified program is case 0 of its base: it must be accepted and must run
		muts = append(muts, mutant{Base: e.Name(), Op: "unmodified", Src: string(b)})
		muts = append(muts, mutantsOf(e.Name(), string(b))...)
	}
	res := par.Map(len(muts), func(i int) *fail {
		m := muts[i]
		if m.Op == "unmodified" {
			out, err := run(m.Src)
			par.Count("unmodified", 1)
			if err != nil || !strings.Contains(out, "RAN") {
				return &fail{M: m, Out: out, Err: fmt.Sprint(err), Kind: "well-typed program rejected or not run"}
			}
			return nil
		}
		rej, msg := oracle(m)
		if !rej {
			par.Count("discarded", 1)
			par.Distinct("discard_reasons", m.Op+": "+strings.SplitN(msg, ":", 2)[0])
			return nil
		}
		par.Count("mutants", 1)
		par.Distinct("opsite", m.Op+"|"+m.Site)
		par.Distinct("ops", m.Op)
		out, err := run(m.Src)
		if err != nil && out == "" {
			return nil
		}
		f := &fail{M: m, Want: msg, Out: out, Err: fmt.Sprint(err)}
		switch {
		case err == nil:
			f.Kind = "accepted-and-run"
		case strings.Contains(out, "RAN"):
			f.Kind = "rejected-only-after-statements-ran"
		default:
			f.Kind = "rejected-after-initialisation-ran"
		}
		return f
	}, par.Opts{})
	for _, f := range res.Outs {
		key := f.M.Op + "|" + f.M.Site + "|" + f.Kind
		if f.M.Op == "unmodified" {
			key = "unmodified|" + f.M.Base
		}
		if f.Out == "LIBINIT\n" && f.Kind == "rejected-after-initialisation-ran" {
			// one root cause whatever the mutation: only the imported source package's init ran
			key = "imported-source-package-initialised-before-importer-is-checked"
		}
		r.Fail(report.Failure{Key: key, What: fmt.Sprintf("%s line %d: %q -> %q (%s): %s; output=%q err=%s", f.M.Base, f.M.Line, f.M.Orig, f.M.Text, f.Want, f.Kind, f.Out, firstLine(f.Err)), Case: f})
	}
	for _, a := range res.Abnormal {
		m := muts[a.Idx]
		r.Fail(report.Failure{Key: m.Op + "|" + m.Site + "|interpreter-" + a.Kind, What: fmt.Sprintf("%s line %d: %q -> %q: interpreter %s", m.Base, m.Line, m.Orig, m.Text, a.Kind), Case: fail{M: m, Kind: a.Kind}})
	}
	r.Set("evaluations", res.Counts["mutants"]+res.Counts["unmodified"])
	r.Set("mutants_rejected_by_go_types_and_checked", res.Counts["mutants"])
	r.Set("mutants_discarded_by_oracle", res.Counts["discarded"])
	var dr []string
	for k := range res.Sets["discard_reasons"] {
		dr = append(dr, k)
	}
	sort.Strings(dr)
	r.Set("discard_reasons", dr)
	r.Set("distinct_nontrivial", len(res.Sets["opsite"]))
	r.Set("mutation_operators_applied", len(res.Sets["ops"]))
	r.Set("base_programs", bases)
	r.Set("exhaustive", true)
	r.Set("rule", "every mutation operator of the catalogue (incl. one destination fewer at each position / one blank destination more for =, := and var with a multi-result call) at every applicable AST site of every base program; a mutant counts when go/types rejects it with all errors on the mutated line; distinct_nontrivial = distinct (operator, site kind, type pair) combinations checked; the interpreter must return an error with empty output (no marker, no init)")
	r.Assumptions = []string{"go/types decides ill-typedness", "only the error classes named in the statement are generated"}
	for _, i := range []int{1, len(muts) / 2, len(muts) - 1} {
		m := muts[i]
		r.Sample(map[string]interface{}{"base": m.Base, "op": m.Op, "site": m.Site, "line": m.Line, "original": m.Orig, "replacement": m.Text})
	}
	r.Finish()
}

func firstLine(s string) string {
	if i := strings.IndexByte(s, '\n'); i >= 0 {
		s = s[:i]
	}
	return s
}
