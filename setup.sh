#!/bin/sh
# Offline setup after a fresh restore: generate case packages and build every checker once so
# that the Go build cache is warm (the checks rebuild against /repo's working tree on every run).
cd "$(dirname "$0")" || exit 1
export VERIF_ROOT="$(pwd)"
export GOFLAGS=-mod=mod GOPROXY=off GOSUMDB=off GOTOOLCHAIN=local
mkdir -p bin gen evidence replays
rc=0
for d in props/*/; do
  id=$(basename "$d")
  [ -d "props/$id/run" ] || continue
  if [ -d "props/$id/gen" ]; then
    go run "./props/$id/gen" >gen/$id.gen.log 2>&1 || { cat gen/$id.gen.log; rc=1; }
  fi
  ov=""
  if [ -f "props/$id/overlay" ]; then
    go run ./engine/overlay/cmd >gen/$id.overlay.log 2>&1 || { cat gen/$id.overlay.log; rc=1; }
    ov="-overlay gen/overlay/overlay.json"
  fi
  go build -tags verif $ov -o "bin/$id" "./props/$id/run" || rc=1
  if [ -d "props/$id/race" ]; then
    go build -race -tags verif -o "bin/${id}race" "./props/$id/race" || rc=1
  fi
done
exit $rc
