module verif

go 1.22

require github.com/traefik/yaegi v0.0.0

replace github.com/traefik/yaegi => /repo
