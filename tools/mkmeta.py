#!/usr/bin/env python3
# usage: tools/mkmeta.py <seed-name> <property> <change> <needs_to_manifest>
import json,sys
name,prop,change,needs=sys.argv[1:5]
json.dump({"property":prop,"change":change,"needs_to_manifest":needs,
 "author":"independent sub-agent (given only the property text and a scratch worktree)",
 "confirmed":"tools/seedverify.sh: applies to /repo HEAD in a fresh worktree, go build ./... ok, repository suite 2191/2191 stable tests pass with the change, demo passes on the unchanged tree and fails with the change",
 "detected_by":"see DESIGN.md 8.8"},open(f'/verif/seeded/{name}/meta.json','w'),indent=1)
