// Self-test of the watchdog confirmation in engine/par: case 2 is slow (starved), case 3 never ends.
package main

import (
	"fmt"
	"os"
	"time"

	"verif/engine/par"
)

func main() {
	res := par.Map(4, func(i int) *int {
		switch i {
		case 2:
			time.Sleep(400 * time.Millisecond)
		case 3:
			time.Sleep(time.Hour)
		}
		v := i * 10
		return &v
	}, par.Opts{CaseTimeout: 150 * time.Millisecond, Workers: 2})
	fmt.Println("outs:", len(res.Outs), res.Outs[2], "abnormal:", len(res.Abnormal), "not confirmed:", res.Counts["watchdog_hits_not_confirmed"])
	if len(res.Outs) == 3 && res.Outs[2] == 20 && len(res.Abnormal) == 1 && res.Abnormal[0].Idx == 3 && res.Abnormal[0].Kind == "hang" {
		fmt.Println("PASS")
		return
	}
	fmt.Println("FAIL", res.Abnormal)
	os.Exit(1)
}
