#!/usr/bin/env python3
"""Development aid (never run by a registered check): merge manually classified failing keys
into known_findings.json.  usage: mkfindings.py <Cxx> <dump.json> [<dump2.json> ...]  (the union of the dumps:
keys may differ between tiers, always merge the quick AND the thorough dump)
Every dumped key must match a rule of props/<cxx>/findings.rules (regex TAB root-cause text),
otherwise nothing is written: a key is only listed after a human classified its root cause."""
import json, re, sys
add = "--add" in sys.argv  # --add: keep the open entries already listed (only add the new keys of these dumps)
args = [a for a in sys.argv[1:] if a != "--add"]
prop, dumps = args[0], args[1:]
rules = []
for line in open(f"/verif/props/{prop.lower()}/findings.rules"):
    line = line.rstrip("\n")
    if not line or line.startswith("#"): continue
    rx, what = line.split("\t", 1)
    rules.append((re.compile(rx), what))
new = []
bad = []
allf, seen = [], set()
for dump in dumps:
    for f in (json.load(open(dump))["findings"] or []):
        if f["key"] not in seen:
            seen.add(f["key"]); allf.append(f)
for f in allf:
    for rx, what in rules:
        if rx.search(f["key"]):
            new.append({"property": prop, "key": f["key"], "status": "open", "what": what})
            break
    else:
        bad.append(f["key"] + " :: " + f["what"])
if bad:
    print("UNCLASSIFIED (%d):" % len(bad)); print("\n".join(bad[:40])); sys.exit(1)
doc = json.load(open("/verif/known_findings.json"))
keep = [f for f in doc["findings"] if add or not (f["property"] == prop and f["status"] == "open")]
have = {(f["property"], f["key"]) for f in keep}
keep += [f for f in new if (f["property"], f["key"]) not in have]
keep.sort(key=lambda f: (f["property"], f["status"], f["key"]))
json.dump({"findings": keep}, open("/verif/known_findings.json", "w"), indent=1, ensure_ascii=False)
print("known_findings.json: %d entries for %s (%d total)" % (len(new), prop, len(keep)))
