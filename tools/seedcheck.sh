#!/bin/sh
# usage: tools/seedcheck.sh <seed-dir-name> [check ids...]
# Applies /verif/seeded/<name>/patch.diff to /repo, runs the given checks (default: the property the seed breaks,
# quick tier), prints one line per check (DETECTED / missed) and restores /repo.
name=$1; shift
dir=/verif/seeded/$name
[ -f "$dir/patch.diff" ] || { echo "no $dir/patch.diff"; exit 2; }
checks="$*"
[ -n "$checks" ] || checks=$(python3 -c "import json;print(json.load(open('$dir/meta.json'))['property'])")
git -C /repo diff --quiet || { echo "/repo has uncommitted changes: refusing"; exit 2; }
save=$(mktemp -d /var/tmp/seedcheck.XXXXXX); cp -a /verif/evidence/. "$save"/   # evidence of the unchanged tree is restored afterwards
git -C /repo apply "$dir/patch.diff" || git -C /repo apply --3way "$dir/patch.diff" || { echo "patch does not apply"; git -C /repo checkout -- .; exit 2; }
for c in $checks; do
  out=$(cd /verif && timeout 3600 ./check $c --tier ${TIER:-quick} 2>&1); rc=$?
  v=$(echo "$out" | grep -c '^VIOLATION')
  if [ $rc -eq 1 ] && [ $v -gt 0 ]; then echo "$name $c DETECTED ($v violation lines) :: $(echo "$out" | grep '^VIOLATION' | head -2 | cut -c1-260)"; else echo "$name $c missed (exit $rc) :: $(echo "$out" | tail -1 | cut -c1-200)"; fi
done
git -C /repo checkout -- .
cp -a "$save"/. /verif/evidence/; rm -rf "$save"
git -C /repo status --short | grep -v '^??' | head -3
