#!/usr/bin/env python3
"""Writes MANIFEST.json from tools/manifest_checks.json (one entry per claimed property)."""
import json
checks = json.load(open("/verif/tools/manifest_checks.json"))
props = [json.loads(l)["id"] for l in open("/verif/properties.jsonl")]
claimed = {c["property_id"] for c in checks["checks"]}
out = {
 "version": 1,
 "setup_cmd": "./setup.sh",
 "hooks": {
  "guard": "verif (Go build tag)",
  "enable": "go build -tags verif (done by ./check for every run, against /repo's current working tree)",
  "baseline_off_cmd": "cd /repo && go test -mod=mod -json -vet=off -count=1 -timeout 25m ./...",
  "source_commits": checks["hook_commits"],
  "add_only": True
 },
 "engines": checks["engines"],
 "checks": [],
 "notes": checks.get("notes", ""),
 "not_applicable": [{"property_id": p, "reason": checks["not_applicable"].get(p, "check not built yet in this session; see DESIGN.md for the planned engine")} for p in props if p not in claimed],
}
for c in checks["checks"]:
    pid = c["property_id"]
    out["checks"].append({
     "property_id": pid,
     "quick_cmd": f"./check {pid} --tier quick",
     "thorough_cmd": f"./check {pid} --tier thorough",
     "evidence_file": f"/verif/evidence/{pid}.json",
     "replay_cmd_template": f"./check {pid} --replay {{path}}",
     "engine": c["engine"],
     "level_claimed": {"category": c["category"], "text": c["text"], "design_ref": c["design_ref"]},
     "level_note": c["level_note"],
     "technique": c["technique"],
    })
json.dump(out, open("/verif/MANIFEST.json", "w"), indent=1, ensure_ascii=False)
print("MANIFEST.json:", len(out["checks"]), "checks,", len(out["not_applicable"]), "not applicable")
