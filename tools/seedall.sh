#!/bin/sh
# usage: tools/seedall.sh [Cxx ...]   runs every stored seed of the given properties (default: all) against its check
cd /verif
props="$*"; [ -n "$props" ] || props=$(ls seeded | sed 's/-.*//' | sort -u)
for p in $props; do for d in seeded/$p-*; do [ -d "$d" ] && tools/seedcheck.sh $(basename $d) 2>&1 </dev/null | cut -c1-200 | head -1; done; done
