#!/usr/bin/env python3
"""Development aid: regenerate the table of DESIGN.md 8.4 from evidence files (quick: /verif/evidence or a directory given
as argv[1]; thorough: argv[2]) and the open entries of known_findings.json."""
import json, sys, collections, re
qdir = sys.argv[1] if len(sys.argv) > 1 else '/verif/evidence'
tdir = sys.argv[2] if len(sys.argv) > 2 else '/var/tmp/ev_thor'
kf = json.load(open('/verif/known_findings.json'))['findings']
openk = collections.Counter(f['property'] for f in kf if f['status'] == 'open')
causes = {
 'C01': 'composite literal assigned to a struct variable replaces its storage; `m[k], b = f()`; `x, a := …`; closures deferred in loops; 3-clause loop variable copy-back; per-iteration locals share storage; `return y, x` with named results; result slot aliases the destination during `x = f()`; tagless `case a, b:` tests only `a`; `switch init; tag` skips the tag; default-not-last + fallthrough; key-only / invalid-UTF-8 string ranges; `range &arr` executed twice; shadowed loop variable; method values bound late; parallel assignment / append onto own prefix evaluated in the wrong order; `*p` operand of `&&` stale after re-pointing',
 'C02': 'operator result stored in an interface variable (`e = -x`, `e = x % y`, shifts, `!b`); shift by negative signed variable; `++/--` on uintptr',
 'C03': 'iota advanced per name in `n, m = iota, …`; typed overflow / truncation accepted; >64-bit operands rejected; rune default type lost; host panics on `a cmp (b op c)`',
 'C04': 'composite literal assigned to a struct variable replaces its storage (aliases lost: 140 of the keys are minimal histories of this one cause); parallel struct literals; append onto own prefix; method values bound late; method expression in a variable',
 'C05': 'assertion / type switch to script-defined interfaces ignores receiver kind, promotion and (when shadowed) signatures; promotion resolved depth-first instead of shallowest-first; method expressions through embedding; embedded interface fields; Stringer / error / Writer wrapping priorities',
 'C06': 'recover() value type; Panic.Value is a reflect.Value; deferred call arguments evaluated late; late-bound method values; re-panic skips remaining defers',
 'C07': 'a declared script function returned by a script call and passed directly to a host function reaches the host as the interpreter node; `m[k], s = host.F()` does not store into the map; `a, ok := host.F()` redeclaring a struct variable allocates a new one',
 'C08': '`go wk.run()` reads its receiver late; send operand of a select case partly evaluated; receive into a captured variable lost',
 'C09': '`ExecuteWithContext` after `Compile`: goroutine channel operations not cancellable',
 'C10': 'closures in variables and host wrappers dead after any cancel until the next Eval',
 'C11': 'locals of top-level statement chunks live in the package frame (shadowing overwrites globals); redefined method ignored; comma-ok map lookup in a top-level chunk panics ("nil type"); a top-level tuple definition redeclaring a variable of an earlier chunk shadows it',
 'C12': 'typed operands of a wrong type, nil for non-nillable types and non-integer constants accepted or rejected only at run time in many positions; int8/int16 boundary constants; `new(5)`; `x = f()` with two results; pointer-receiver interface assignment; imported package initialised before the importer is checked',
 'C13': '`log.Default()` / `slog.NewLogLogger` Fatal kill the host; package-level `flag` functions and `log.Default()` output use the host\'s',
 'C14': 'rounded non-dyadic float constants',
 'C15': 'dependencies through function bodies ignored; "earliest ready" rule; cross-file order; false definition loops',
 'C16': 'repeated / overlapping path elements folded onto the importer; EvalPath(dir/file) vendor precedence; virtual FS root from the real cwd; relative import inside an imported package',
 'C17': '`// +build` placement leniency kept for the repository\'s own tests',
 'C18': 'blank / `W` parameters; const-only package; two packages of one name; inexact floats; constraint interface with a method; `String` with another signature; `interface{ any }`; unexported types in exported methods',
 'C19': 'next node identified by closure code pointer (if/else arms, loops); package-variable initialisers skipped after SetBreakpoints; host crash on generic functions',
}
def ev(d, i):
    try: return json.load(open(f'{d}/{i}.json'))
    except Exception: return None
def fmtn(n):
    if n is None: return '?'
    if n >= 10_000_000: return f'{n/1e6:.0f} M'
    if n >= 1_000_000: return f'{n/1e6:.2f} M'
    return f'{n:,}'.replace(',', ' ')
print('| id | quick: cases / wall | thorough: cases / wall | open keys | root causes of the listed findings |')
print('|---|---|---|---|---|')
for n in range(1, 20):
    i = f'C{n:02d}'
    q, t = ev(qdir, i), ev(tdir, i)
    def cell(e):
        if not e: return '—'
        c = e['coverage']
        s = f"{fmtn(c.get('evaluations'))} / {e['wall_s']:.0f} s"
        extra = []
        for k, lab in (('preemption_bound_completed', 'preemption bound'), ('deviation_bound_completed', 'deviation bound'), ('bfs_depth', 'BFS depth'), ('deviation_bound', 'deviation bound')):
            if k in c: extra.append(f'{lab} {c[k]}')
        if c.get('subtrees_capped'): extra.append(f"{c['subtrees_capped']} subtrees capped")
        if c.get('bfs_capped'): extra.append('BFS capped')
        if c.get('exhaustive') is False: extra.append('not exhaustive')
        return s + (' (' + ', '.join(extra) + ')' if extra else '')
    print(f"| {i} | {cell(q)} | {cell(t)} | {openk.get(i, 0)} | {causes[i]} |")
