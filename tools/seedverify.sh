#!/bin/sh
# usage: tools/seedverify.sh <agent-worktree> <seed-name> <property>
# Independent confirmation of a seeded change: fresh worktree of /repo HEAD, apply the patch, build, run the
# repository's suite (must match the baseline), run the demonstration with and without the change.
# On success the seed is stored as /verif/seeded/<seed-name>/ (patch.diff, demo/, meta.json is written by hand afterwards).
wt=$1; name=$2; prop=$3
export GOFLAGS=-mod=mod GOPROXY=off GOSUMDB=off GOTOOLCHAIN=local
sv=/tmp/sv_$name
git -C /repo worktree remove --force $sv >/dev/null 2>&1
git -C /repo worktree add --detach $sv HEAD >/dev/null 2>&1 || { echo "cannot create worktree"; exit 2; }
cleanup() { git -C /repo worktree remove --force $sv >/dev/null 2>&1; rm -rf $sv; }
cp -r $wt/_seed_demo $sv/_seed_demo
sed -i "s|=> $wt|=> $sv|; s|=> \.\./\?|=> $sv|" $sv/_seed_demo/go.mod
rundemo() { (cd $sv/_seed_demo && if ls *_test.go >/dev/null 2>&1; then timeout 900 go test -count=1 ./... 2>&1; else timeout 900 go run . 2>&1; fi; echo "exit=$?") | tail -4 | cut -c1-200; }
echo "== demo on unchanged tree"; rundemo > /tmp/sv_$name.clean; cat /tmp/sv_$name.clean
git -C $sv apply $wt/seed.patch || git -C $sv apply --3way $wt/seed.patch || { echo "PATCH DOES NOT APPLY to current HEAD"; cleanup; exit 2; }
(cd $sv && go build ./... ) || { echo "DOES NOT BUILD"; cleanup; exit 2; }
echo "== demo with the change"; rundemo > /tmp/sv_$name.seeded; cat /tmp/sv_$name.seeded
echo "== baseline with the change"; /verif/tools/baseline.sh $sv | tail -3
mkdir -p /verif/seeded/$name
git -C $sv diff -- . ':(exclude)_seed_demo' > /verif/seeded/$name/patch.diff
rm -rf /verif/seeded/$name/demo; cp -r $wt/_seed_demo /verif/seeded/$name/demo
cp $wt/SEED_README.md /verif/seeded/$name/README.agent.md 2>/dev/null
cleanup
echo "stored /verif/seeded/$name ($(wc -l < /verif/seeded/$name/patch.diff) patch lines)"
