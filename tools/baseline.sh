#!/bin/sh
# usage: tools/baseline.sh [repo-dir] [extra go test flags]
# Runs the repository's own test suite (the BASELINE.json command, guard off) and reports every test of
# BASELINE.stable_pass that does not pass.
repo=${1:-/repo}
export GOFLAGS=-mod=mod GOPROXY=off GOSUMDB=off GOTOOLCHAIN=local
out=$(mktemp /tmp/baseline.XXXXXX.json)
(cd "$repo" && go test -mod=mod -json -vet=off -count=1 -timeout 25m ./... >"$out" 2>/dev/null)
python3 - "$out" <<'PY'
import json, sys
passed=set()
for line in open(sys.argv[1]):
    try: e=json.loads(line)
    except Exception: continue
    if e.get("Action")=="pass" and e.get("Test"):
        passed.add(e["Package"]+"::"+e["Test"])
base=json.load(open("/root/.vp/BASELINE.json"))
missing=[t for t in base["stable_pass"] if t not in passed]
print("stable_pass=%d passed_now=%d missing=%d" % (len(base["stable_pass"]), len(passed), len(missing)))
for t in missing[:40]: print("  NOT PASSING:", t)
sys.exit(1 if missing else 0)
PY
rc=$?
rm -f "$out"
exit $rc
